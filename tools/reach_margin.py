#!/usr/bin/env python3
"""tools/reach_margin.py <tier> <seeds...>: runs every check per seed with scratch evidence dirs and prints, per property, the reach targets
whose observed/required ratio is smallest - to set targets with a wide margin (an unmet target makes a run inconclusive)."""
import json, os, subprocess, sys, tempfile, shutil
ROOT = os.path.dirname(os.path.dirname(os.path.abspath(__file__)))
tier = sys.argv[1]
seeds = sys.argv[2:]
ids = os.environ.get("IDS", " ".join("C%02d" % i for i in range(1, 21))).split()
worst = {}
for s in seeds:
    for pid in ids:
        d = tempfile.mkdtemp()
        env = dict(os.environ, VERIF_SEED=s, VERIF_WORK=d + "/w", VERIF_EVIDENCE_DIR=d + "/e", VERIF_REPLAY_DIR=d + "/r")
        p = subprocess.run([os.path.join(ROOT, "check"), pid, tier], env=env, capture_output=True, text=True)
        try:
            ev = json.load(open(d + "/e/%s.json" % pid))
            c, t = ev["coverage"]["counters"], ev["coverage"]["reach_targets"]
            for k, need in t.items():
                r = c.get(k, 0) / need if need else 99
                if k not in worst.setdefault(pid, {}) or r < worst[pid][k][0]:
                    worst[pid][k] = (r, c.get(k, 0), need, s)
            print(pid, "seed", s, "rc", p.returncode, "wall", ev["wall_s"], flush=True)
        except Exception as e:
            print(pid, "seed", s, "rc", p.returncode, "no evidence", e, flush=True)
        shutil.rmtree(d, ignore_errors=True)
print()
for pid in sorted(worst):
    low = sorted(worst[pid].items(), key=lambda kv: kv[1][0])[:4]
    print(pid, "; ".join("%s %.2fx (%d/%d, seed %s)" % (k, v[0], v[1], v[2], v[3]) for k, v in low))
