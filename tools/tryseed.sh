#!/bin/bash
# tools/tryseed.sh <seeded/ID/name dir> <check ID> [tier] [seed]: runs one check against a scratch copy of /repo with the seeded patch applied
# (no demo / suite confirmation - that is tools/seedeval.py); the scratch copy is removed afterwards.
set -u
src=$(readlink -f "$1"); pid=$2; tier=${3:-quick}; seed=${4:-0}
d=$(mktemp -d /tmp/tryseed_XXXX)
rsync -a --exclude .git --exclude __pycache__ --exclude docs --exclude htmlcov /repo/ $d/repo/
( cd $d/repo && patch -p1 -s < $src/patch.diff ) || { echo "patch failed"; rm -rf $d; exit 3; }
VERIF_REPO=$d/repo VERIF_WORK=$d/w VERIF_EVIDENCE_DIR=$d/e VERIF_REPLAY_DIR=$d/r VERIF_SEED=$seed "$(dirname "$0")/../check" $pid $tier | grep -v "^  observed" | tail -8 | cut -c1-400
rc=${PIPESTATUS[0]}
rm -rf $d
echo "exit=$rc"
