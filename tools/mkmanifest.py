#!/usr/bin/env python3
"""Regenerates /verif/MANIFEST.json from the table below and validates it against the schema.
A property appears under `checks` as soon as mon/props/<id>.py exists and is listed in CLAIMED."""
import json
import os
import sys

ROOT = os.path.dirname(os.path.dirname(os.path.abspath(__file__)))

# id -> (category, technique, level text, level note, design ref)
CLAIMED = {}


def claim(pid, cat, technique, text, note, ref):
    CLAIMED[pid] = (cat, technique, text, note, ref)


TB = ("Trusted base: CPython 3.12, numpy/pandas/scipy/scikit-learn binaries, the harness's own reference "
      "models; verdicts hold for the executions observed only.")

claim("C13", "exploration",
      "runtime monitoring: complete enumeration driven through the real election objects, closed-form rule oracle + "
      "remaining-wait shadow model, icontract postconditions",
      "Every vote vector for n<=6 (7 thorough) members x every parameter value <= n+1 is applied to the real election "
      "objects and compared with the voting rule; ConfirmedElection is explored state by state (joint implementation/"
      "model graph, n<=4 (5), wait<=3 (4)) with icontract postconditions on counters and verdict domain; random vote "
      "sequences for larger n; single election objects re-used over lists of varying length; every drift count 0..n for every "
      "ensemble size up to 40 (120) under whole and fractional thresholds; states handed over as literals, as equal-but-distinct "
      "str objects (pickle round trip) and as numpy.str_.  Exhaustive within those bounds, sampled beyond them.",
      TB + " Members are stubs exposing drift_state only.", "DESIGN.md 4 (C13), 9.5")

claim("C05", "exploration",
      "runtime monitoring: executable-specification shadow models stepped in lock-step with the real detectors after "
      "every sample; complete enumeration of all 2^n outcome sequences plus random long sequences",
      "All 2^14 (2^17 thorough) outcome sequences under 13 (21) small-threshold configurations of DDM/EDDM/STEPD and "
      "hundreds of long random piecewise-stationary sequences are run through the real detectors; drift_state, "
      "retraining_recs and STEPD's accuracies are compared with an independent executable specification after every "
      "sample, exact ties decisive, several epochs per history.  Exhaustive for the enumerated sub-space, sampled beyond.",
      TB + " Specification details the docs leave open follow the repository-pinned behaviour (DESIGN.md 3.3).",
      "DESIGN.md 4 (C05)")

claim("C04", "exploration",
      "runtime monitoring: epoch-local executable specifications of CUSUM and Page-Hinkley stepped in lock-step with the "
      "real detectors; drift_state and to_dataframe rows compared after every update",
      "Hundreds (thousands thorough) of generated level-shift streams with many alarms each, over burn_in / delta / "
      "threshold / direction / known-or-estimated target, run through the real CUSUM and PageHinkley; after every update "
      "the state (and all eight to_dataframe columns of Page-Hinkley) is compared with a specification that keeps only "
      "the current epoch and the documented carry-over, so any dependence on older data or a stale index shows as a "
      "mismatch in a later epoch.  Sampled, not exhaustive.",
      TB + " Near-ties (1e-9 relative) adopted; degenerate zero-variance estimation windows not judged.",
      "DESIGN.md 4 (C04)")

claim("C03", "exploration",
      "runtime monitoring: index-range exponential-histogram specification stepped in lock-step with the real ADWIN / "
      "ADWINAccuracy; statistics recomputed from the raw last-W inputs after every update",
      "Hundreds (thousands thorough) of generated streams with many cuts each over delta, max_buckets (incl. 1), check "
      "period, window thresholds and both bounds; after every update the cut decision, mean(), variance(), "
      "retraining_recs and total_samples of the real object are compared with an independent specification that stores "
      "only bucket index ranges and recomputes every statistic from the raw inputs; ADWINAccuracy is driven with label "
      "pairs and must equal ADWIN with the constructor parameters it was given.  Sampled, not exhaustive.",
      TB + " Tolerances scaled to the magnitude of the running totals; near-ties of the epsilon-cut adopted.",
      "DESIGN.md 4 (C03)")

claim("C08", "exploration",
      "runtime monitoring: icontract postconditions walking the public tree after build/fill + independent builder and "
      "point-wise router as reference model + recomputed distributions / KL / Kulldorff statistic",
      "Over a thousand (12k thorough) generated point sets (continuous, lattice, duplicates, constant columns, adjacent "
      "doubles, extreme magnitudes; 1-5 dims) x count_ubound x cutpoint bound, each followed by random fill sequences over "
      "several ids with/without reset; after build and after every fill icontract postconditions check the structural "
      "invariants (binary, axis cycling, no small node split, conservation per id, leaf order, totals) and every node's count "
      "is compared with an independent point-by-point routing; leaf distributions, kl_distance and every row of "
      "to_plotly_dataframe are recomputed.  Sampled, not exhaustive.",
      TB + " Leaf rule taken from the class documentation and mirrored by the independent builder.",
      "DESIGN.md 4 (C08)")

claim("C09", "exploration",
      "runtime monitoring: numpy global-RNG tap (event log of the bootstrap draws) + own kdq-tree/router as reference "
      "model; decision recomputed per update from own leaf counts and the logged draws",
      "Hundreds (thousands thorough) of batch histories and adaptively generated streams whose accumulated divergence is "
      "steered across the critical value in both directions; every update of the real KdqTreeBatch / KdqTreeStreaming runs "
      "under an interposer on numpy.random that logs the bootstrap draws; the monitor checks the log's shape (exactly "
      "bootstrap_samples draws of 2 x sample size from the corrected reference leaf distribution), recomputes the critical "
      "value from those draws and the divergence from an independent tree, and requires drift exactly when the rule says "
      "(incl. the run-length 'in a row' rule, silent periods, reference replacement after drift).  Sampled.",
      TB + " scipy.stats.entropy / numpy.quantile trusted; the detector must draw through numpy.random.choice.",
      "DESIGN.md 4 (C09)")

claim("C10", "exploration",
      "runtime monitoring: own set/geometry oracle on the partitioner's public matrices, metamorphic twin builds "
      "(swapped samples, same set), recording partitioner subclass + numpy RNG tap for NN-DVI decisions",
      "Hundreds (thousands thorough) of sample pairs incl. unequal sizes, duplicates within/across samples and lattice ties "
      "are built with the real NNSpacePartitioner: D, v1, v2 and the adjacency matrix are checked against exact set "
      "membership and a tie-tolerant k-NN criterion, the distance is recomputed, and symmetry / range / identity are checked "
      "on further real builds.  NN-DVI batch sequences run under the RNG tap: the partitioner built inside update is captured, "
      "the threshold is recomputed from the logged permutations (count, argument, normal fit, quantile) and decision and "
      "reference replacement are compared after every update.  Sampled.",
      TB + " sklearn NearestNeighbors and scipy.stats.norm trusted.", "DESIGN.md 4 (C10)")

claim("C07", "exploration",
      "runtime monitoring: epoch-local executable specification of HDDDM/CDBD stepped in lock-step, recording user-divergence "
      "probe, numpy RNG tap for the bootstrap estimate, metamorphic twin detectors for the distance axioms",
      "Hundreds (thousands thorough) of reference + batch sequences over detector x divergence (Hellinger / JS / user probe) x "
      "detect_batch x statistic x significance x subsets with explicit set_reference calls mid-run; after every call every "
      "published quantity (state, distances, epsilons, thresholds, beta, epsilon list, reference, feature_epsilons, feature_info, "
      "counters) is compared with an independent specification; the bootstrap estimate is recomputed from the logged row draws; "
      "the probe sees the histograms at the library boundary (bin count, every point held); identity / symmetry / bound axioms "
      "on twin detectors.  Sampled.",
      TB + " numpy.histogram, scipy t-quantile and jensenshannon trusted.", "DESIGN.md 4 (C07)")

claim("C11", "exploration",
      "runtime monitoring: executable specification of PCA-CD (own windows, scaling, per-component supports, own Page-Hinkley) "
      "stepped in lock-step; metamorphic periodic-stream monitor (identical windows must score 0)",
      "Hundreds (thousands thorough) of multivariate streams with level / variance / correlation shifts over window_size, "
      "ev_threshold, delta, both metrics, sample_period and online_scaling on/off; after every update drift_state, counters, "
      "num_pcs and every change score are compared with the specification (several drifts and rebuilt references per stream); "
      "periodic streams whose test window equals the reference window as a multiset must score exactly 0 with the intersection "
      "metric; two detectors updated in turn must each reproduce their solo trace; online_scaling given as numpy.bool_ / 0 / 1 must "
      "run in the mode its truth value says.  Sampled.",
      TB + " sklearn PCA/KDE/StandardScaler and scipy jensenshannon trusted; edge-prone histogram scores adopted (counted).",
      "DESIGN.md 4 (C11)")

claim("C06", "exploration",
      "runtime monitoring: shadow model of confusion matrix / rates / per-rate statistics + instance wrapper on the bounds "
      "simulation + numpy RNG tap (bounds recomputed exactly from the logged Bernoulli draws); twin histories for untracked "
      "rates; parallelize=True vs sequential trace under sys.monitoring yield injection",
      "Hundreds (thousands thorough) of (y_true, y_pred) sequences over decay factor, levels, burn_in, subsample, round_val, "
      "num_mc and all 15 subsets of tracked rates: after every sample the state, all_drift_states and retraining_recs must "
      "follow from the model's statistics and the bounds the implementation obtained; the bounds-cache discipline (which "
      "(rate, denominator) keys simulate, which reuse) is checked call by call; every simulated bound is recomputed from the "
      "logged draws (count, p, size, weights, percentiles).  Twin runs show untracked rates have no influence; the two-thread "
      "parallel mode is compared with the sequential trace under injected yields (stress axis).  Sampled.",
      TB + " numpy.random.binomial's distribution is trusted; bounds are validated exactly rather than statistically.",
      "DESIGN.md 4 (C06)")

claim("C19", "exploration",
      "runtime monitoring: recording probe classifier / margin function (event log of cross-validation folds at the library "
      "boundary) + protocol shadow model; bounded-exhaustive call sequences and state-graph exploration on deep copies of "
      "the real detector",
      "Every call sequence of length 4 (6 thorough) over eight call kinds {update in/out of margin, label correct / incorrect / "
      "renamed column / extra column / two rows at once, two-row update} from four start states x four configurations, "
      "continued as a state graph to 11 (15) accepted calls with "
      "every refused call re-checked at every node, plus long random interleavings: after each call the full published state "
      "(drift_state, waiting flag, labels held, margin density, counters, reference statistics) is compared with the model; "
      "refused calls must raise and change nothing; reference statistics are recomputed from the logged folds, which must "
      "partition the reference rows; `refstats/` cases summarise references with repeated rows under a classifier refitted per fold.  "
      "Exhaustive within the bounds, sampled beyond.",
      TB + " A deterministic threshold classifier and margin function stand for the user's model.", "DESIGN.md 4 (C19)")

claim("C20", "exploration",
      "runtime monitoring: icontract postconditions (type preserved, input unchanged, new object) on every injector call + "
      "cell-by-cell frame/effect oracle + numpy RNG tap for the resampling and random-walk injectors; all windows of small data "
      "sets enumerated",
      "For every injector and both containers, all windows 0 <= from <= to <= n of small data sets (n <= 12) and random windows "
      "of larger ones are applied to the real injector: icontract postconditions guard type / aliasing / input mutation, the "
      "harness compares shape, labels, every cell outside window x targeted columns, and the documented effect inside (exchange "
      "and involution, class merge, shift by shift_factor x (alpha + window mean), random walk from x0 with the logged steps, "
      "resampled rows = the logged draws from the window with exactly the requested per-class probability mass).  Exhaustive "
      "over windows of the small sets, sampled otherwise.",
      TB + " Arithmetic injectors are driven with floating columns only.", "DESIGN.md 4 (C20)")

claim("C01", "exploration",
      "runtime monitoring: icontract postconditions on every update (state domain, counter monotonicity) + harness-side "
      "lifecycle automaton per detector (counters, restart table, warm-up, retraining_recs) over many-epoch histories",
      "All 15 detectors x hostile and moderate parameter draws x generated histories with many drifts (also back to back and "
      "inside warm-up; MD3 through its protocol): after every accepted update icontract postconditions check the state domain "
      "and 0 <= since-reset <= total, and an automaton that knows only the inputs and the property's restart table checks the "
      "exact counter values, that no warning/drift appears before the documented minimum of the epoch, and that "
      "retraining_recs on drift is [start <= end == current index] and is not carried into the next epoch.  `pair/` cases run two "
      "detectors of one class in turn and compare every output of each with its solo run (no state shared between objects).  Sampled.",
      TB + " The harness never calls reset() in the automaton cases.", "DESIGN.md 4 (C01), 9.5")

claim("C02", "exploration",
      "runtime monitoring: twin differential - a freshly constructed detector per epoch (documented carry-over only) run beside "
      "the real detector under an identical numpy seed schedule; public outputs compared after every update",
      "For the ten listed detectors, hundreds (thousands thorough) of histories with several drifts at arbitrary spacing and, for "
      "batch detectors, explicit set_reference calls at random positions: at every drift / set_reference a new detector is built "
      "with the same parameters and the documented carry-over and fed the same data under the same per-call seed; state, "
      "retraining_recs (index-shifted) and the public statistics (Page-Hinkley table, STEPD accuracies, HDM distance / epsilons / "
      "beta / reference size / feature epsilons, kdq-tree node counts and Kulldorff values, NN-DVI reference) must be identical "
      "from the following update on.  Sampled.",
      TB + " Counters are C01's business and are not compared here.", "DESIGN.md 4 (C02)")

claim("C16", "exploration",
      "runtime monitoring: twin differential - the same outcome sequence presented under re-encoded labels / container shapes / "
      "agreement-preserving pair substitutions, and with junk in documented-unused arguments; full output traces compared",
      "For DDM / EDDM / STEPD / ADWINAccuracy the canonical run is compared after every sample with runs under some 40 encodings "
      "(ints, big ints, strings with common prefix, number-like strings, bools, floats, numpy scalars, five classes with varying pairs, "
      "1-element list / ndarray / Series / 2-d array, the two labels wrapped independently, row-slice Series, label buffers refilled "
      "in place), for LinearFourRates under the index-valid encodings of 0/1; all 14 zoo detectors are "
      "run with and without junk objects in their documented-unused arguments under the same seed schedule; `fresh/` cases run in a "
      "fresh interpreter, where another detector sees the classes in another encoding first.  Sampled.",
      TB, "DESIGN.md 4 (C16), 9.5")
claim("C17", "exploration",
      "runtime monitoring: twin differential over ordered threshold values on identical histories and seed schedules; first-drift "
      "indices and warning index sets compared (exact relation)",
      "For each of 15 detection-threshold families (ADWIN / ADWINAccuracy delta, CUSUM and Page-Hinkley threshold, DDM drift_scale, "
      "EDDM drift_thresh, STEPD alpha_drift, LFR detect_level, kdq-tree and NN-DVI alpha, HDDDM / CDBD significance for both "
      "statistics) the same history is run under 4-5 ordered values with identical seeds; the first reported drift must never move "
      "earlier with a stricter value; for the four warning thresholds the drift trace must be unchanged and warnings only added.  "
      "Sampled.",
      TB + " Page-Hinkley is driven with positive-valued streams (relative threshold).", "DESIGN.md 4 (C17)")
claim("C18", "exploration",
      "runtime monitoring: twin differential - every batch and the reference independently row-permuted (reversal, rotation, "
      "shuffles) under the same seed schedule; distances, public leaf counts, references and decision traces compared",
      "HDDDM / CDBD (detect_batch 2/3) distances, KdqTreeBatch public node counts (hence divergences) and decisions, the NN-DVI "
      "distance (read off the partitioner each update builds), decisions and reference contents must be identical between the original history and four row-permuted versions of it, "
      "with equal and unequal batch sizes, duplicates, histories ordered by a feature, decimal grids, object arrays and frames with "
      "unique / repeated / string row labels; for detect_batch 2 the comparison stops where the position-dependent "
      "bootstrap threshold lets the decision traces part.  Sampled.",
      TB, "DESIGN.md 4 (C18)")

claim("C12", "exploration",
      "runtime monitoring: twin differential - every ensemble member against an identically constructed stand-alone twin under "
      "a per-member seed schedule (structural deep comparison of the complete state), independent election oracle, recording "
      "column selectors and a recording order-sensitive election probe",
      "Hundreds (thousands thorough) of streaming and batch ensembles (1-5 members of mixed kinds, five election kinds incl. a "
      "user-supplied order-sensitive probe, recording selectors over subsets / re-ordered columns of ndarray and DataFrame "
      "inputs, explicit reset / set_reference calls): after every ensemble call each member's full state equals its twin's, "
      "drift_states and retraining_recs report the members' values, the verdict equals an independent implementation of the "
      "election on the twins in insertion order, each selector was applied exactly once, and the ensemble's own counters count "
      "updates since the last explicit reset.  Sampled.",
      TB + " MD3 is not placed in ensembles.", "DESIGN.md 4 (C12)")

claim("C14", "fault_enumeration",
      "runtime monitoring with fault injection: one malformed call injected at enumerated positions of valid histories; "
      "acceptance-table oracle + no-harm twin (same history without the rejected call) + container twins",
      "For the 14 zoo detectors: six kinds of malformed call (wrong row count, wrong width, both, renamed / re-ordered "
      "columns, multi-column data to a univariate detector, several observations in y) in three containers are injected before "
      "up to 10 positions of each valid history (first, second, right after every drift, last, random): the call must raise "
      "ValueError exactly when an acceptance table computed from the accepted inputs says so, must not be counted, and every "
      "later output must equal the run without it; every order of up to three container kinds followed by every mismatching "
      "input is decided against the table; equal values in every container (scalar, lists, ndarray C / F / strided, Series, "
      "DataFrame, random mixes) must give identical traces.  Fault positions are enumerated per history; histories sampled.",
      TB + " One open known finding (DataFrame after arrays skips the width check; pinned by a repository test). MD3's "
      "refusals are covered in C19.", "DESIGN.md 4 (C14)")

claim("C15", "fault_enumeration",
      "runtime monitoring with fault injection: the caller overwrites / re-uses what it passed after every call position (alias "
      "twin against a run on private copies); byte-level argument snapshots around every call; icontract postconditions on "
      "injector calls",
      "For the 14 zoo detectors x fourteen input layouts (ndarray C / Fortran / strided view / read-only view / 0-d / 1-d view, Series, "
      "single- and mixed-dtype DataFrame, one re-used ndarray / read-only / DataFrame buffer per history - rows for streaming, whole "
      "batches for batch detectors; 1-element label arrays / lists / Series): run A hands over the caller's objects "
      "and overwrites them in place after every call (reference batches, test batches, single observations), run B uses private "
      "copies; every output must be equal and no argument may change across a call.  All eight injectors are re-run on further "
      "layouts (Fortran, strided, mixed-dtype, indexed frames) under postconditions: new object, same container type, input "
      "bit-for-bit unchanged.  Overwrite positions enumerated per history; histories sampled.",
      TB + " MD3.give_oracle_label is outside the property's list of calls.", "DESIGN.md 4 (C15)")

NOT_YET = "check not built yet in this revision of /verif (planned: see DESIGN.md section 4); nothing is claimed for it"


def main():
    props = [json.loads(l) for l in open(os.path.join(ROOT, "properties.jsonl"))]
    checks, na = [], []
    for p in props:
        pid = p["id"]
        have = os.path.exists(os.path.join(ROOT, "mon", "props", pid.lower() + ".py"))
        if pid in CLAIMED and have:
            cat, tech, text, note, ref = CLAIMED[pid]
            checks.append({
                "property_id": pid,
                "quick_cmd": "./check %s quick" % pid,
                "thorough_cmd": "./check %s thorough" % pid,
                "evidence_file": "evidence/%s.json" % pid,
                "replay_cmd_template": "./check %s --replay {path}" % pid,
                "engine": "mon",
                "level_claimed": {"category": cat, "text": text, "design_ref": ref},
                "level_note": note,
                "technique": tech,
            })
        else:
            na.append({"property_id": pid, "reason": NOT_YET})
    man = {
        "version": 1,
        "setup_cmd": "./check --setup",
        "hooks": {
            "guard": "MENELAUS_VERIF",
            "enable": "no source hooks: all instrumentation is attached from the harness (icontract contracts on "
                      "subclasses/instances, numpy global-RNG tap, callback probes, sys.monitoring line probes); the "
                      "launcher exports MENELAUS_VERIF=1 for completeness",
            "baseline_off_cmd": "cd /repo && /venv/bin/python -m pytest -ra -q -p no:cacheprovider --timeout=900 "
                                "--continue-on-collection-errors",
            "source_commits": [],
            "add_only": True,
        },
        "engines": [{
            "name": "mon",
            "path": "mon/",
            "serves_properties": [c["property_id"] for c in checks],
            "kind_free_text": "runtime monitoring harness: drives the real menelaus code from /repo's working tree under "
                              "generated / enumerated workloads in sharded subprocesses; shadow models, twin runs, "
                              "icontract contracts, RNG/callback event logs; three-valued verdicts",
        }],
        "checks": checks,
        "notes": "Known findings and fixed defects: known_findings.txt; regression witnesses: regress/<ID>/; seeded "
                 "breaks: seeded/<ID>/; design: DESIGN.md.",
        "not_applicable": na,
    }
    path = os.path.join(ROOT, "MANIFEST.json")
    with open(path, "w") as f:
        json.dump(man, f, indent=1)
        f.write("\n")
    try:
        sys.path.insert(0, os.path.join(ROOT, ".deps"))
        import jsonschema

        jsonschema.validate(man, json.load(open("/root/.vp/MANIFEST.schema.json")))
        print("MANIFEST.json valid: %d checks, %d not_applicable" % (len(checks), len(na)))
    except ImportError:
        print("written (jsonschema not available to validate)")


if __name__ == "__main__":
    main()
