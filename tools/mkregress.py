#!/usr/bin/env python3
"""Turns a replay file into a literal regression case:  mkregress.py <replay.json> <regress/ID/name.json> [key=value ...]
The property's run_case must understand case["literal"] (parameters and inputs written out)."""
import json
import sys

rep = json.load(open(sys.argv[1]))
w = rep["violation"]["witness"]
case = {k: v for k, v in rep["case"].items() if k in ("det", "kind", "family")}
lit = {}
for k in ("params", "stream", "bits", "cfg", "detector", "batches", "data", "calls", "history", "dtype", "ref_dtype", "build_dtype", "s1", "s2", "k", "fills", "count_ubound", "prop", "resets", "numpy_params", "pairs", "columns", "float32_fills"):
    if k in w:
        lit[k] = w[k]
case["literal"] = lit
case["seed_key"] = rep["case"].get("seed_key", rep["case"]["id"])
out = {"property": rep["property"], "origin": "replay of %s, signature %s" % (rep["case"]["id"], rep["violation"]["sig"]),
       "msg": rep["violation"]["msg"][:500], "case": case}
json.dump(out, open(sys.argv[2], "w"), indent=1)
print("wrote", sys.argv[2], "literal keys:", list(lit))
