#!/usr/bin/env python3
"""Writes seeded/README.md from seeded/*/*/meta.json."""
import glob, json, os
ROOT = os.path.dirname(os.path.dirname(os.path.abspath(__file__)))
rows = []
for f in sorted(glob.glob(os.path.join(ROOT, "seeded", "*", "*", "meta.json"))):
    m = json.load(open(f))
    rows.append(m)
L = ["# Seeded changes (written by sub-agents that saw only the property text)", "",
     "Each directory holds `patch.diff` (the change to mitre/menelaus), `demo.py` (exits 1 with the change, 0 without), `notes.md` (the author's",
     "notes: what the change needs in order to manifest) and `meta.json` (what was re-run here to confirm it, and the outcome of the checks).",
     "Confirmation and evaluation: `tools/seedeval.py` - patch applied to a scratch copy of /repo, repository suite re-run, demo re-run with and",
     "without the change, then `./check <ID> quick` with `VERIF_REPO=<patched copy>`.  None of these changes is ever applied to /repo itself.", "",
     "| property | change | confirmed (suite green, demo 0 -> 1) | own check | other checks run |", "|---|---|---|---|---|"]
nc = nm = 0
for m in rows:
    own = m.get("checks", {}).get(m["property"], {})
    others = ["%s: %s" % (p, "caught" if c["caught"] else "not caught") for p, c in m.get("checks", {}).items() if p != m["property"]]
    if own.get("caught"):
        nc += 1
    else:
        nm += 1
    L.append("| %s | %s | %s | %s | %s |" % (m["property"], m["name"], "yes" if m.get("confirmed") else "**no**",
                                        ("caught: " + "; ".join(own.get("signatures", [])[:2])) if own.get("caught") else "**MISSED** (exit %s)" % own.get("exit"),
                                        ", ".join(others) + ((" - " + m["remark"]) if m.get("remark") else "")))
L += ["", "%d changes; caught by the property's own check: %d; missed: %d" % (len(rows), nc, nm)]
open(os.path.join(ROOT, "seeded", "README.md"), "w").write("\n".join(L) + "\n")
print(L[-1])
