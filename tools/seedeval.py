#!/usr/bin/env python3
"""Confirms and evaluates one seeded change written by a sub-agent.

    tools/seedeval.py <dir with patch.diff demo.py notes.md> <property id> <name> [--also C01,C05] [--tier quick]

Steps (all on scratch copies of /repo outside /repo and /verif, removed afterwards):
  1. the patch applies to a clean copy of /repo's HEAD;
  2. with the patch the repository's own suite stays green (one environment-dependent test deselected);
  3. the demonstration exits 1 with the patch and 0 without it;
  4. the property's check (and any --also checks) is run against the patched copy.
Writes /verif/seeded/<ID>/<name>/{patch.diff, demo.py, notes.md, meta.json}."""
import argparse
import json
import os
import shutil
import subprocess
import sys
import tempfile
import time

ROOT = os.path.dirname(os.path.dirname(os.path.abspath(__file__)))


def sh(cmd, **kw):
    return subprocess.run(cmd, capture_output=True, text=True, **kw)


def scratch():
    d = tempfile.mkdtemp(prefix="seedeval_")
    subprocess.check_call(["rsync", "-a", "--exclude", ".git", "--exclude", "__pycache__", "--exclude", "docs", "--exclude", "htmlcov",
                           "--exclude", "*.egg-info", "/repo/", d + "/repo/"])
    return d


def main():
    ap = argparse.ArgumentParser()
    ap.add_argument("src")
    ap.add_argument("pid")
    ap.add_argument("name")
    ap.add_argument("--also", default="")
    ap.add_argument("--tier", default="quick")
    ap.add_argument("--seed", default="0")
    a = ap.parse_args()
    dst = os.path.join(ROOT, "seeded", a.pid, a.name)
    os.makedirs(dst, exist_ok=True)
    for f in ("patch.diff", "demo.py", "notes.md"):
        if os.path.exists(os.path.join(a.src, f)) and os.path.abspath(a.src) != os.path.abspath(dst):
            shutil.copy(os.path.join(a.src, f), os.path.join(dst, f))
    meta = {"property": a.pid, "name": a.name, "evaluated_at_repo_commit": sh(["git", "-C", "/repo", "rev-parse", "--short", "HEAD"]).stdout.strip(),
            "evaluated_at_verif_commit": sh(["git", "-C", ROOT, "rev-parse", "--short", "HEAD"]).stdout.strip()}
    notes = os.path.join(dst, "notes.md")
    meta["needs_to_manifest"] = open(notes).read()[:1500] if os.path.exists(notes) else ""
    d = scratch()
    try:
        repo = d + "/repo"
        env = dict(os.environ, PYTHONPATH=repo, PYTHONDONTWRITEBYTECODE="1")
        demo = os.path.join(dst, "demo.py")
        r0 = sh(["/venv/bin/python", demo], cwd=repo, env=env, timeout=900)
        meta["demo_exit_without_change"] = r0.returncode
        ap_ = sh(["git", "apply", "--unsafe-paths", "--directory", repo, os.path.join(dst, "patch.diff")], cwd="/")
        if ap_.returncode != 0:
            ap_ = sh(["patch", "-p1", "-s", "-i", os.path.join(dst, "patch.diff")], cwd=repo)
        meta["patch_applies"] = ap_.returncode == 0
        if not meta["patch_applies"]:
            meta["error"] = (ap_.stdout + ap_.stderr)[-500:]
        else:
            r1 = sh(["/venv/bin/python", demo], cwd=repo, env=env, timeout=900)
            meta["demo_exit_with_change"] = r1.returncode
            meta["demo_output_with_change"] = (r1.stdout + r1.stderr)[-600:]
            t = sh(["/venv/bin/python", "-m", "pytest", "-q", "-p", "no:cacheprovider", "--timeout=900", "-n", "4", "-o", "addopts=",
                    "--deselect", "tests/menelaus/utils/test_utils.py::test_find_root_dir"], cwd=repo, env=env, timeout=1800)
            meta["suite_green_with_change"] = t.returncode == 0
            meta["suite_tail"] = t.stdout.strip().splitlines()[-1:] if t.stdout else []
            meta["checks"] = {}
            for pid in [a.pid] + [x for x in a.also.split(",") if x]:
                envc = dict(os.environ, VERIF_REPO=repo, VERIF_WORK=d + "/work", VERIF_EVIDENCE_DIR=d + "/ev", VERIF_REPLAY_DIR=d + "/replays",
                            VERIF_SEED=a.seed, VERIF_JOBS=os.environ.get("VERIF_JOBS", "8"))
                t0 = time.time()
                c = sh([os.path.join(ROOT, "check"), pid, a.tier], env=envc, timeout=7200)
                sigs = [l.strip().replace("violation signature ", "") for l in c.stdout.splitlines() if l.startswith("  violation signature")]
                meta["checks"][pid] = {"tier": a.tier, "seed": int(a.seed), "exit": c.returncode, "caught": c.returncode == 1, "signatures": sigs[:6],
                                       "seconds": round(time.time() - t0, 1)}
                if c.returncode != 1:
                    meta["checks"][pid]["tail"] = c.stdout[-700:]
        meta["confirmed"] = bool(meta.get("patch_applies") and meta.get("demo_exit_without_change") == 0 and meta.get("demo_exit_with_change") == 1
                                 and meta.get("suite_green_with_change"))
        meta["what_was_run"] = ("demo.py on a clean scratch copy of /repo (exit %s) and on the patched copy (exit %s); repository suite on the patched copy; "
                                "./check <ID> %s with VERIF_REPO=<patched copy>" % (meta.get("demo_exit_without_change"), meta.get("demo_exit_with_change"), a.tier))
    finally:
        shutil.rmtree(d, ignore_errors=True)
    mp = os.path.join(dst, "meta.json")
    if os.path.exists(mp):
        try:
            old = json.load(open(mp))
            prev = old.pop("previous_evaluations", [])
            prev.append({"evaluated_at_verif_commit": old.get("evaluated_at_verif_commit"), "checks": {k: {"caught": v.get("caught"), "exit": v.get("exit"),
                         "signatures": v.get("signatures", [])[:3]} for k, v in old.get("checks", {}).items()}})
            meta["previous_evaluations"] = prev
        except Exception:
            pass
    json.dump(meta, open(mp, "w"), indent=1)
    print(json.dumps({k: meta.get(k) for k in ("property", "name", "confirmed", "patch_applies", "demo_exit_without_change", "demo_exit_with_change",
                                               "suite_green_with_change")}))
    for pid, c in meta.get("checks", {}).items():
        print("  %s: %s %s" % (pid, "CAUGHT" if c["caught"] else "MISSED(exit %s)" % c["exit"], "; ".join(c["signatures"][:3])))
    return 0


if __name__ == "__main__":
    sys.exit(main())
