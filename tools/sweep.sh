#!/bin/bash
# tools/sweep.sh <tier> "<ids>" "<seeds>"   - runs checks with scratch evidence dirs; prints one line per run
tier=${1:-quick}; ids=${2:-"C13 C05 C04 C03"}; seeds=${3:-"1 2 3"}
cd "$(dirname "$0")/.."
for s in $seeds; do for id in $ids; do
  d=$(mktemp -d)
  out=$(VERIF_SEED=$s VERIF_WORK=$d/work VERIF_EVIDENCE_DIR=$d/ev VERIF_REPLAY_DIR=${SWEEP_KEEP:-$d}/replays ./check $id $tier 2>&1); rc=$?
  echo "seed=$s $id $tier rc=$rc $(echo "$out" | grep -E '^(HELD|VIOLATION|INCONCLUSIVE|KNOWN)' | head -3 | tr '\n' ' ')"
  [ $rc -ne 0 ] && echo "$out" | tail -8
  rm -rf $d
done; done
