"""Refactorings that keep every property true (different private names, equivalent drawing layouts, other stopping rule of the
kdq-tree beyond the stated clauses, other summation order ...).  The checks must NOT raise an alarm on them:
    python3 selftest/run.py --benign [--only C09]
A result of exit 1 is a false alarm of the machinery; exit 2 (inconclusive) is tolerated and reported."""
BENIGN = []


def B(name, file, old, new, props):
    BENIGN.append({"name": name, "file": file, "old": old, "new": new, "props": props})


KP = "menelaus/partitioners/KDQTreePartitioner.py"
KD = "menelaus/data_drift/kdq_tree.py"
LF = "menelaus/concept_drift/lfr.py"
AD = "menelaus/change_detection/adwin.py"
EN = "menelaus/ensemble/ensemble.py"
DT = "menelaus/detector.py"
DDM = "menelaus/concept_drift/ddm.py"
HD = "menelaus/data_drift/histogram_density_method.py"

B("kdq_stop_rule_without_distinct_value_count", KP, "            or np.unique(data).size <= count_ubound\n", "", ["C08", "C09", "C18", "C02", "C01", "C17"])
B("kdq_bootstrap_drawn_in_one_call", KD,
  "        for _ in range(self.bootstrap_samples):\n            # note the maintenance of the leaf order!\n            b_sample = np.random.choice(bin_indices, size=2 * sample_size, p=ref_dist)\n",
  "        _all = np.random.choice(bin_indices, size=(self.bootstrap_samples, 2 * sample_size), p=ref_dist)\n        for b_sample in _all:\n", ["C09"])
B("lfr_replicates_drawn_in_one_call", LF,
  "        result_vector = result_matrix.apply(get_Rj, axis=0, args=(eta, est_rate, denom))\n",
  "        _b = np.random.binomial(n=1, p=est_rate, size=(num_mc, denom))\n        result_vector = pd.Series([(1 - eta) * float(np.sum(np.asarray(prods) * r)) for r in _b])\n", ["C06"])
B("adwin_private_width_renamed", AD, "_window_size", "_width", ["C03", "C01", "C17"])
B("ensemble_iterates_items", EN, "        for det_key in self.detectors:\n            # XXX - Cannot re-define X = constrain(), else external reference is modified\n            #       Need to see why this is happening and where to put e.g. a copy() stmt.\n            X_selected = self.column_selectors[det_key](X)\n            self.detectors[det_key].update(X=X_selected, y_true=y_true, y_pred=y_pred)",
  "        for det_key, det in self.detectors.items():\n            X_selected = self.column_selectors[det_key](X)\n            det.update(X=X_selected, y_true=y_true, y_pred=y_pred)", ["C12"])
B("validator_explicit_copy", DT, "            ary = copy.copy(X)\n            ary = np.array(ary)\n            if len(ary.shape) <= 1:\n                # only one sample", "            ary = np.array(X, copy=True)\n            if len(ary.shape) <= 1:\n                # only one sample", ["C14", "C15", "C16"])
B("ddm_float_state", DDM, "        self._error_rate = 0\n        self._error_std = 0\n        self._error_rate_min = float(\"inf\")\n        self._error_std_min = float(\"inf\")\n        self._initialize_retraining_recs()\n\n    def reset",
  "        self._error_rate = 0.0\n        self._error_std = 0.0\n        self._error_rate_min = float(\"inf\")\n        self._error_std_min = float(\"inf\")\n        self._initialize_retraining_recs()\n\n    def reset", ["C05", "C02", "C16"])
B("hdm_hellinger_vectorised", HD, "        f_distance = 0\n        r_length = sum(reference_density)\n        t_length = sum(test_density)\n        for b in range(self._bins):\n            f_distance += (\n                np.sqrt(test_density[b] / t_length)\n                - np.sqrt(reference_density[b] / r_length)\n            ) ** 2\n\n        return np.sqrt(f_distance)",
  "        r = np.asarray(reference_density, dtype=float)\n        t = np.asarray(test_density, dtype=float)\n        return np.sqrt(np.sum((np.sqrt(t / t.sum()) - np.sqrt(r / r.sum())) ** 2))", ["C07", "C18", "C02"])

NN = "menelaus/partitioners/NNSpacePartitioner.py"
INJ = "menelaus/injection/injector.py"
MD3 = "menelaus/concept_drift/md3.py"
PC = "menelaus/data_drift/pca_cd.py"
EL = "menelaus/ensemble/election.py"

# written after the seeded rounds 4-6 widened the workloads (dtypes, labels, containers, numpy-typed parameters)
B("nnsp_ball_tree", NN, 'algorithm="kd_tree"', 'algorithm="ball_tree"', ["C10", "C18", "C02"])
B("injector_columns_by_list_index", INJ, "column_idxs = tuple([data.columns.get_loc(c) for c in columns])",
  "column_idxs = tuple([list(data.columns).index(c) for c in columns])", ["C20", "C15"])
B("md3_reindex_labelled_sample", MD3, "labeled_sample = labeled_sample[reference_columns]",
  "labeled_sample = labeled_sample.reindex(columns=reference_columns)", ["C19"])
B("pcacd_flag_as_bool", PC, "        self.online_scaling = online_scaling\n", "        self.online_scaling = bool(online_scaling)\n", ["C11"])
B("kdq_build_midpoint_from_max", KP, "        midpoint_at_axis = min_value_at_axis + (np.ptp(data[:, axis]) / 2)\n",
  "        midpoint_at_axis = min_value_at_axis + ((np.max(data[:, axis]) - min_value_at_axis) / 2)\n", ["C08", "C09"])
B("majority_counts_with_sum", EL, "        num_drift = len(alarms)\n", "        num_drift = sum(1 for _ in alarms)\n", ["C13", "C12"])
