#!/usr/bin/env python3
"""Validation of the monitors themselves (DESIGN.md 5): apply one deliberate break at a time to a
scratch copy of /repo (never to /repo), run the quick check of the properties that ought to notice,
and tabulate kill / survive.  Not part of MANIFEST.json.

    python3 selftest/run.py [--only C05[,C03]] [--mutant name] [--tests] [--tier quick] [--jobs 4]

A mutant is (name, file, old text, new text, [properties expected to catch it]); the old text must
occur exactly once.  --tests additionally runs the repository's own suite on the scratch copy and
reports whether it stays green (a break that the suite already catches is not interesting).
Also accepts unified diffs: --patch <file> --props C05,C01
"""
import argparse
import concurrent.futures
import json
import os
import shutil
import subprocess
import sys
import tempfile
import time

HERE = os.path.dirname(os.path.abspath(__file__))
ROOT = os.path.dirname(HERE)
sys.path.insert(0, HERE)


def make_scratch():
    d = tempfile.mkdtemp(prefix="mvs_")
    subprocess.check_call(["rsync", "-a", "--exclude", ".git", "--exclude", "__pycache__", "--exclude", "docs",
                           "--exclude", "*.egg-info", "/repo/", d + "/repo/"])
    return d


def run_check(scratch, pid, tier, seed):
    env = dict(os.environ)
    env.update({"VERIF_REPO": scratch + "/repo", "VERIF_WORK": scratch + "/work", "VERIF_EVIDENCE_DIR": scratch + "/evidence",
                "VERIF_REPLAY_DIR": scratch + "/replays", "VERIF_SEED": str(seed), "VERIF_JOBS": env.get("VERIF_JOBS", "8")})
    t0 = time.time()
    p = subprocess.run([os.path.join(ROOT, "check"), pid, tier], env=env, capture_output=True, text=True, timeout=3600)
    sigs = [l.strip() for l in p.stdout.splitlines() if l.startswith("  violation signature")]
    return p.returncode, sigs, round(time.time() - t0, 1), p.stdout[-1500:]


def run_tests(scratch):
    p = subprocess.run(["/venv/bin/python", "-m", "pytest", "-q", "-x", "-p", "no:cacheprovider", "--timeout=900", "-n", "4",
                        "--deselect", "tests/menelaus/concept_drift/test_adwin_accuracy.py::test_aliased_input",
                        # depends on the checkout directory being called like the repository
                        "--deselect", "tests/menelaus/utils/test_utils.py::test_find_root_dir"],
                       cwd=scratch + "/repo", capture_output=True, text=True,
                       env={**os.environ, "PYTHONPATH": scratch + "/repo", "PYTHONDONTWRITEBYTECODE": "1"})
    return p.returncode == 0, p.stdout.strip().splitlines()[-1:] if p.stdout else []


def do_mutant(m, args):
    scratch = make_scratch()
    try:
        if "patch" in m:
            r = subprocess.run(["patch", "-p1", "-s", "-i", m["patch"]], cwd=scratch + "/repo", capture_output=True, text=True)
            if r.returncode != 0:
                return {"name": m["name"], "error": "patch failed: " + r.stdout + r.stderr}
        else:
            path = os.path.join(scratch, "repo", m["file"])
            src = open(path).read()
            if src.count(m["old"]) != 1 and not args.benign:
                return {"name": m["name"], "error": "old text occurs %d times" % src.count(m["old"])}
            if src.count(m["old"]) < 1:
                return {"name": m["name"], "error": "old text does not occur"}
            open(path, "w").write(src.replace(m["old"], m["new"]))
        res = {"name": m["name"], "props": {}}
        if args.tests:
            ok, tail = run_tests(scratch)
            res["suite_green"] = ok
            res["suite_tail"] = tail
        for pid in m["props"]:
            if args.only and pid not in args.only:
                continue
            rc, sigs, secs, tail = run_check(scratch, pid, args.tier, args.seed)
            res["props"][pid] = {"rc": rc, "killed": rc == 1, "sigs": sigs, "secs": secs}
            if rc != 1:
                res["props"][pid]["tail"] = tail
        return res
    finally:
        shutil.rmtree(scratch, ignore_errors=True)


def main():
    ap = argparse.ArgumentParser()
    ap.add_argument("--only", default="")
    ap.add_argument("--mutant", default="")
    ap.add_argument("--tests", action="store_true")
    ap.add_argument("--tier", default="quick")
    ap.add_argument("--seed", type=int, default=0)
    ap.add_argument("--jobs", type=int, default=2)
    ap.add_argument("--patch", default="")
    ap.add_argument("--props", default="")
    ap.add_argument("--benign", action="store_true", help="run the property-preserving refactorings of selftest/benign.py; an exit 1 is a false alarm")
    args = ap.parse_args()
    args.only = [x for x in args.only.split(",") if x]
    if args.patch:
        muts = [{"name": os.path.basename(args.patch), "patch": os.path.abspath(args.patch), "props": args.props.split(",")}]
    else:
        if args.benign:
            from benign import BENIGN as MUTANTS
        else:
            from mutants import MUTANTS

        muts = MUTANTS
        if args.mutant:
            muts = [m for m in muts if args.mutant in m["name"]]
        if args.only:
            muts = [m for m in muts if set(m["props"]) & set(args.only)]
    results = []
    with concurrent.futures.ThreadPoolExecutor(args.jobs) as ex:
        for res in ex.map(lambda m: do_mutant(m, args), muts):
            results.append(res)
            if "error" in res:
                print("ERROR   %-45s %s" % (res["name"], res["error"]))
                continue
            for pid, r in res["props"].items():
                label = ("KILLED" if r["killed"] else "SURVIVED") if not args.benign else ("FALSE-ALARM" if r["rc"] == 1 else ("quiet" if r["rc"] == 0 else "inconclusive"))
                print("%-8s %-45s %s rc=%s %5.1fs %s %s" % (
                    label, res["name"], pid, r["rc"], r["secs"],
                    "" if "suite_green" not in res else ("suite=green" if res["suite_green"] else "suite=RED"),
                    "; ".join(s.replace("violation signature ", "") for s in r["sigs"][:3])), flush=True)
                if (not r["killed"] and not args.benign) or (args.benign and r["rc"] != 0):
                    print("         " + r.get("tail", "").replace("\n", "\n         ")[-800:])
    out = os.path.join(HERE, "last_results_benign.json" if args.benign else "last_results.json")
    old = {}
    if os.path.exists(out):
        try:
            old = {r["name"]: r for r in json.load(open(out))}
        except Exception:
            old = {}
    for r in results:
        if r["name"] in old and "props" in old[r["name"]] and "props" in r:
            merged = dict(old[r["name"]]["props"])
            merged.update(r["props"])
            r = dict(r, props=merged)
        old[r["name"]] = r
    json.dump(list(old.values()), open(out, "w"), indent=1)
    if args.benign:
        fa = [(r["name"], p) for r in results if "props" in r for p, x in r["props"].items() if x["rc"] == 1]
        print("false alarms:", fa)
        return 1 if fa else 0
    surv = [(r["name"], p) for r in results if "props" in r for p, x in r["props"].items() if not x["killed"]]
    print("survivors:", surv)
    return 1 if surv else 0


if __name__ == "__main__":
    sys.exit(main())
