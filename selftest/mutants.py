"""Deliberate breaks (DESIGN.md 5).  Each keeps the repository importable; most keep its suite green."""
MUTANTS = []


def M(name, file, old, new, props):
    MUTANTS.append({"name": name, "file": file, "old": old, "new": new, "props": props})


EL = "menelaus/ensemble/election.py"
M("c13_majority_ge", EL, "if num_drift > simple_majority_threshold:", "if num_drift >= simple_majority_threshold:", ["C13"])
M("c13_min_early_return", EL, "            if num_approvals >= self.approvals_needed:\n                return \"drift\"\n        return None",
  "            if num_approvals > self.approvals_needed:\n                return \"drift\"\n        return None", ["C13"])
M("c13_ordered_conf_gt", EL, "and num_confirmations >= self.confirmations_needed", "and num_confirmations > self.confirmations_needed", ["C13"])
M("c13_conf_warning_consumes_wait", EL,
  "            elif state == \"warning\":\n                num_warning += 1\n",
  "            elif state == \"warning\":\n                num_warning += 1\n                if self.wait_period_counters[i] != 0:\n                    self.wait_period_counters[i] += 1\n", ["C13"])
M("c13_conf_expiry_ge", EL, "if count > self.wait_time:", "if count >= self.wait_time and self.wait_time > 1:", ["C13"])
M("c13_conf_warning_rule", EL, "elif num_warning + num_drift >= self.sensitivity:", "elif num_warning >= self.sensitivity:", ["C13"])

DDM = "menelaus/concept_drift/ddm.py"
EDDM = "menelaus/concept_drift/eddm.py"
STEPD = "menelaus/concept_drift/stepd.py"
M("c05_ddm_drift_gt", DDM, ">= self._error_rate_min + self.drift_scale * self._error_std", "> self._error_rate_min + self.drift_scale * self._error_std", ["C05"])
M("c05_ddm_nthreshold_le", DDM, "if self.samples_since_reset < self.n_threshold:", "if self.samples_since_reset <= self.n_threshold:", ["C05"])
# (equivalent on every workload: `<=` -> `<` in the DDM minimum update only matters when two different (p, s) pairs
#  have bit-identical sums)
M("c05_ddm_recs_warning_index", DDM, "            self._retraining_recs[1] = self.total_samples - 1\n", "            self._retraining_recs[1] = self.total_samples - 1 if self._retraining_recs[0] is None else self._retraining_recs[0] + 1\n", ["C05"])
M("c05_ddm_reset_keeps_min", DDM, "        self._error_std = 0\n        self._error_rate_min = float(\"inf\")\n        self._error_std_min = float(\"inf\")\n        self._initialize_retraining_recs()\n\n    # XXX",
  "        self._error_std = 0\n        self._initialize_retraining_recs()\n\n    # XXX", ["C05", "C02"])
M("c05_eddm_dist_from_last", EDDM, "dist = self._index_error_curr - self._index_error_last", "dist = self._index_error_curr - self._index_error_last + (1 if self._n_errors > 3 else 0)", ["C05"])
M("c05_eddm_drift_lt", EDDM, "if self._test_statistic <= self.drift_thresh:", "if self._test_statistic < self.drift_thresh:", ["C05"])
M("c05_eddm_reset_keeps_max", EDDM, "        self._dist_std = 0\n        self._max_numerator = 0\n        self._test_statistic = None\n        self._initialize_retraining_recs()\n\n    # XXX",
  "        self._dist_std = 0\n        self._test_statistic = None\n        self._initialize_retraining_recs()\n\n    # XXX", ["C05", "C02"])
M("c05_eddm_nerr_guard", EDDM, "if self._n_errors < self.n_threshold:", "if self._n_errors <= self.n_threshold:", ["C05"])
M("c05_stepd_guard_flipped", STEPD, "accuracy_decreased = past_accuracy > recent_accuracy", "accuracy_decreased = past_accuracy >= recent_accuracy", ["C05"])
M("c05_stepd_two_windows", STEPD, "if self.samples_since_reset >= 2 * self.window_size:", "if self.samples_since_reset > 2 * self.window_size:", ["C05"])
M("c05_stepd_reset_keeps_r", STEPD, "self._s, self._r = 0, 0\n        self._window = []\n        self._test_statistic = None\n        self._test_p = None\n        self._initialize_retraining_recs()\n\n    def update",
  "self._s = 0\n        self._window = []\n        self._test_statistic = None\n        self._test_p = None\n        self._initialize_retraining_recs()\n\n    def update", ["C05", "C02"])
M("c05_stepd_recs_not_cleared", STEPD, "                self.drift_state = None\n                self._initialize_retraining_recs()\n", "                self.drift_state = None\n", ["C05"])
M("c05_stepd_continuity", STEPD, "                - 0.5\n", "                - 0.25\n", ["C05"])

CU = "menelaus/change_detection/cusum.py"
PH = "menelaus/change_detection/page_hinkley.py"
M("c04_cusum_stale_index", CU, "                + (self._stream[-1] - self.target)\n", "                + (self._stream[self.samples_since_reset - 1] - self.target)\n", ["C04", "C02"])
M("c04_cusum_burnin_ge", CU, "        if self.samples_since_reset > self.burn_in:\n            if self.direction is None:", "        if self.samples_since_reset >= self.burn_in:\n            if self.direction is None:", ["C04", "C01"])
M("c04_cusum_sl_sign", CU, "                - self.delta\n                - (self._stream[-1] - self.target)", "                - self.delta\n                + (self._stream[-1] - self.target)", ["C04"])
M("c04_cusum_reestimate_window", CU, "self.target = np.mean(self._stream[-self.burn_in :])", "self.target = np.mean(self._stream[-self.burn_in - 1 : -1])", ["C04", "C02"])
M("c04_cusum_negative_uses_upper", CU, "                if self._lower_bound[self.samples_since_reset] > self.threshold:\n                    self.drift_state = \"drift\"\n",
  "                if self._upper_bound[self.samples_since_reset] > self.threshold:\n                    self.drift_state = \"drift\"\n", ["C04"])
M("c04_cusum_reset_keeps_upper", CU, "        self._upper_bound = [0]\n        self._lower_bound = [0]\n\n    def update", "        self._upper_bound = [self._upper_bound[-1] * 0.5]\n        self._lower_bound = [0]\n\n    def update", ["C04", "C02"])
M("c04_ph_min_not_reset", PH, "        super().reset()\n        self._max = 0\n        self._min = 0\n", "        super().reset()\n        self._max = 0\n", ["C04", "C02"])
M("c04_ph_directions_swapped", PH, "        if self.direction == \"positive\":\n            ph_difference = self._sum - self._min\n        elif self.direction == \"negative\":", "        if self.direction == \"negative\":\n            ph_difference = self._sum - self._min\n        elif self.direction == \"positive\":", ["C04"])
M("c04_ph_burnin_ge", PH, "if drift_check and self.samples_since_reset > self.burn_in:", "if drift_check and self.samples_since_reset >= self.burn_in:", ["C04", "C01"])
# (equivalent: PageHinkley._mean not reset - the first update of an epoch overwrites it: mean + (x - mean)/1 == x)
M("c04_ph_delta_sign", PH, "self._sum = self._sum + X - self._mean - self.delta", "self._sum = self._sum + X - self._mean + self.delta", ["C04"])

AD = "menelaus/change_detection/adwin.py"
AA = "menelaus/concept_drift/adwin_accuracy.py"
M("c03_chan_merge_term", AD, "+ n_elements * (mean1 - mean2) * (mean1 - mean2) / 2\n", "+ n_elements * (mean1 - mean2) * (mean1 - mean2) / 4\n", ["C03"])
M("c03_remove_last_no_between_term", AD, "        self._curr_variance -= curr_bucket_row.bucket_variances[\n            0\n        ] + n_curr * self._window_size * (", "        self._curr_variance -= curr_bucket_row.bucket_variances[\n            0\n        ] + 0 * n_curr * self._window_size * (", ["C03"])
M("c03_subwindow_gt", AD, "(n_elements0 >= self.subwindow_size_thresh)", "(n_elements0 > self.subwindow_size_thresh)", ["C03"])
M("c03_schedule_shift", AD, "self.total_samples % self.new_sample_thresh == 0", "self.total_samples % self.new_sample_thresh == (1 if self.new_sample_thresh > 1 else 0)", ["C03", "C01"])
M("c03_recs_start_off_by_one", AD, "                                    self.total_samples - self._window_size,\n", "                                    self.total_samples - self._window_size + 1,\n", ["C03"])
M("c03_epscut_delta_half", AD, "                2 * log(n_elements) / self.delta\n", "                2 * log(n_elements) / (self.delta / 2)\n", ["C03"])
M("c03_window_thresh_ge", AD, "and self._window_size > self.window_size_thresh", "and self._window_size >= self.window_size_thresh", ["C03", "C01"])
M("c03_empty_tail_rows_again", AD, "        while (\n            self._bucket_row_list.size > 1\n            and self._bucket_row_list.tail.bucket_count == 0\n        ):\n            self._bucket_row_list.remove_tail()", "        if curr_bucket_row.bucket_count == 0:\n            self._bucket_row_list.remove_tail()", ["C03"])
M("c03_accuracy_default_period", AA, "            new_sample_thresh=new_sample_thresh,\n", "            new_sample_thresh=32,\n", ["C03"])
M("c03_accuracy_inverted_indicator", AA, "new_value = int(y_true == y_pred)", "new_value = int(y_true != y_pred)", ["C03"])
M("c03_conservative_bound_swapped", AD, "        if not self.conservative_bound:\n", "        if self.conservative_bound and self._window_size > 64 or not self.conservative_bound:\n", ["C03"])
M("c03_variance_first_sample", AD, "        if self._window_size > 1:\n            self._curr_variance += (", "        if self._window_size > 2:\n            self._curr_variance += (", ["C03"])

KP = "menelaus/partitioners/KDQTreePartitioner.py"
M("c08_fill_boundary_lt", KP, "        upper_data = data[data[:, axis] > midpoint_at_axis]\n        lower_data = data[data[:, axis] <= midpoint_at_axis]\n        total_points = upper_data.shape[0] + lower_data.shape[0]\n        # update by ID",
  "        upper_data = data[data[:, axis] >= midpoint_at_axis]\n        lower_data = data[data[:, axis] < midpoint_at_axis]\n        total_points = upper_data.shape[0] + lower_data.shape[0]\n        # update by ID", ["C08"])
M("c08_fill_children_swapped", KP, "        KDQTreeNode.fill(upper_data, node.right, count_ubound, tree_id, reset)\n        KDQTreeNode.fill(lower_data, node.left, count_ubound, tree_id, reset)",
  "        KDQTreeNode.fill(upper_data, node.left, count_ubound, tree_id, reset)\n        KDQTreeNode.fill(lower_data, node.right, count_ubound, tree_id, reset)", ["C08"])
M("c08_fill_leaf_ignores_reset", KP, "            if tree_id not in node.num_samples_in_compared_subtrees.keys() or reset:\n                node.num_samples_in_compared_subtrees[tree_id] = n\n",
  "            if tree_id not in node.num_samples_in_compared_subtrees.keys():\n                node.num_samples_in_compared_subtrees[tree_id] = n\n", ["C08"])
M("c08_distn_no_correction", KP, "        hist = np.array(counts) + 0.5\n        hist = hist / (total + len(hist) / 2)", "        hist = np.array(counts) + 0.5\n        hist = hist / (total + len(hist))", ["C08"])
M("c08_kss_uncorrected", KP, "np.array([df[\"node_count_test\"], test_max - df[\"node_count_test\"]])\n        )", "np.array([df[\"node_count_test\"] + 0.5, test_max - df[\"node_count_test\"]])\n        )", ["C08"])
M("c08_axis_not_cycling", KP, "        axis = depth % m\n", "        axis = depth % m if depth < 6 else 0\n", ["C08"])
M("c08_midpoint_mean", KP, "midpoint_at_axis = min_value_at_axis + (np.ptp(data[:, axis]) / 2)", "midpoint_at_axis = min_value_at_axis + (np.ptp(data[:, axis]) / 2) * (1 if n < 40 else 0.999)", ["C08"])
M("c08_split_small_nodes", KP, "            n <= count_ubound\n", "            n < count_ubound\n", ["C08"])
M("c08_kl_reversed", KP, "distance = scipy.stats.entropy(hist1, hist2)", "distance = scipy.stats.entropy(hist2, hist1)", ["C08", "C09"])
M("c08_count_diff_sign", KP, "                        node.num_samples_in_compared_subtrees[tree_id2]\n                        - node.num_samples_in_compared_subtrees[tree_id1]", "                        node.num_samples_in_compared_subtrees[tree_id1]\n                        - node.num_samples_in_compared_subtrees[tree_id2]", ["C08"])
M("c08_one_child_again", KP, "            or not np.any(data[:, axis] > midpoint_at_axis)\n", "", ["C08"])
M("c08_internal_count_on_empty_fill", KP, "        if tree_id not in node.num_samples_in_compared_subtrees.keys() or reset:\n            node.num_samples_in_compared_subtrees[tree_id] = total_points\n        else:",
  "        if tree_id not in node.num_samples_in_compared_subtrees.keys() or (reset and total_points > 0):\n            node.num_samples_in_compared_subtrees[tree_id] = total_points\n        else:", ["C08"])

KD = "menelaus/data_drift/kdq_tree.py"
M("c09_quantile_alpha", KD, "return np.quantile(critical_distances, 1 - self.alpha, method=\"nearest\")", "return np.quantile(critical_distances, self.alpha, method=\"nearest\")", ["C09", "C17"])
M("c09_bootstrap_size_n", KD, "b_sample = np.random.choice(bin_indices, size=2 * sample_size, p=ref_dist)\n            b_hist1 = unique(b_sample[:sample_size], return_counts=True)\n            b_hist2 = unique(b_sample[sample_size:], return_counts=True)",
  "b_sample = np.random.choice(bin_indices, size=sample_size, p=ref_dist)\n            b_hist1 = unique(b_sample[:sample_size // 2], return_counts=True)\n            b_hist2 = unique(b_sample[sample_size // 2:], return_counts=True)", ["C09"])
M("c09_stream_sample_size_ref_count", KD, "sample_size = self.window_size if input_type == \"stream\" else sum(ref_counts)", "sample_size = sum(ref_counts) // 2 if input_type == \"stream\" else sum(ref_counts)", ["C09"])
M("c09_decision_ge", KD, "                if test_dist > self._critical_dist:", "                if test_dist >= self._critical_dist:", ["C09"])
M("c09_batch_keeps_old_reference", KD, "                        self.drift_state = \"drift\"\n                        self.ref_data = ary\n", "                        self.drift_state = \"drift\"\n                        self.ref_data = self._ref_data if hasattr(self, \"ref_data\") else ary\n", ["C09", "C02"])
M("c09_persistence_cumulative_again", KD, "                elif input_type == \"stream\":\n                    # persistence counts samples in a row in the drift region\n                    self._drift_counter = 0\n", "", ["C09"])
M("c09_persistence_ge", KD, "if self._drift_counter > self.persistence * self.window_size:", "if self._drift_counter >= self.persistence * self.window_size:", ["C09"])
M("c09_stream_early_test", KD, "if input_type == \"batch\" or (self._test_data_size >= self.window_size):", "if input_type == \"batch\" or (self._test_data_size >= self.window_size - 1):", ["C09", "C01"])
M("c09_stream_test_window_reset", KD, "self._kdqtree.fill(ary, tree_id=\"test\", reset=(input_type == \"batch\"))", "self._kdqtree.fill(ary, tree_id=\"test\", reset=(input_type == \"batch\" or self._test_data_size == 2 * self.window_size))", ["C09"])
M("c09_bootstrap_uniform_p", KD, "b_sample = np.random.choice(bin_indices, size=2 * sample_size, p=ref_dist)", "b_sample = np.random.choice(bin_indices, size=2 * sample_size)", ["C09"])
M("c09_drift_counter_not_reset", KD, "        self._drift_counter = 0  # samples consecutively in the drift region\n", "        self._drift_counter = getattr(self, \"_drift_counter\", 0) // 2  # samples consecutively in the drift region\n", ["C09", "C02"])

NP_ = "menelaus/partitioners/NNSpacePartitioner.py"
ND = "menelaus/data_drift/nndvi.py"
M("c10_split_halves_again", NP_, "v1, v2 = np.split(inverted_indices, [len(sample1)])", "v1, v2 = np.array_split(inverted_indices, 2)", ["C10", "C18"])
M("c10_threshold_alpha", ND, "drift_threshold = norm.ppf(1 - alpha, mu, std)", "drift_threshold = norm.ppf(alpha, mu, std)", ["C10", "C17"])
M("c10_reference_always_replaced", ND, "        if d_act > theta_drift:\n            self._drift_state = \"drift\"\n            self.set_reference(test_batch)", "        if d_act > theta_drift:\n            self._drift_state = \"drift\"\n        self.set_reference(test_batch)", ["C10"])
M("c10_actual_distance_complement", ND, "d_act = NNSpacePartitioner.compute_nnps_distance(M_nnps, v_ref, v_test)", "d_act = NNSpacePartitioner.compute_nnps_distance(M_nnps, v_ref, 1 - v_ref)", ["C10"])
M("c10_v2_complement", NP_, "        v2_onehot[v2] = 1.0\n", "        v2_onehot = 1.0 - v1_onehot\n", ["C10"])
M("c10_knn_excludes_self", NP_, "M_adj = nn.kneighbors_graph(D).toarray()", "M_adj = nn.kneighbors_graph().toarray()", ["C10"])
M("c10_sampling_times_half", ND, "        for _ in range(sampling_times):", "        for _ in range(max(2, sampling_times // 2)):", ["C10"])
M("c10_reference_not_replaced", ND, "            self._drift_state = \"drift\"\n            self.set_reference(test_batch)", "            self._drift_state = \"drift\"", ["C10", "C02"])
M("c10_distance_denominator", NP_, "        denom = len(v1)\n", "        denom = np.sum(v1) + np.sum(v2)\n", ["C10"])
# (c10_decision_ge `>` -> `>=`: equivalent in practice, the threshold is a normal quantile of continuous distances; an exact tie needs std = 0, where ppf is nan)

HD = "menelaus/data_drift/histogram_density_method.py"
M("c07_bins_from_test", HD, "        self._reference_density = self._build_histograms(self.reference, mins, maxes)\n        test_density = self._build_histograms(X, mins, maxes)\n",
  "        self._reference_density = self._build_histograms(self.reference, mins, maxes)\n        _b = self._bins\n        self._bins = int(np.floor(np.sqrt(test_n))) if self.total_batches > 3 else _b\n        self._reference_density = self._build_histograms(self.reference, mins, maxes)\n        test_density = self._build_histograms(X, mins, maxes)\n        self._bins = _b if len(test_density[0]) == _b else self._bins\n", ["C07"])
M("c07_range_reference_only", HD, "            mins.append(np.concatenate((reference_variable, test_variable)).min())", "            mins.append(np.asarray(reference_variable).min())", ["C07"])
M("c07_dscale_off_by_one", HD, "            d_scale = self.total_batches - self._lambda - 1\n", "            d_scale = self.total_batches - self._lambda\n", ["C07"])
M("c07_running_total_last_eps", HD, "        self.total_epsilon += self.epsilon[-2]", "        self.total_epsilon += self.epsilon[-1]", ["C07"])
M("c07_decision_ge_zero", HD, "                if current_epsilon > self.beta:", "                if current_epsilon >= self.beta * 0.98:", ["C07"])
M("c07_reference_not_replaced", HD, "                    self._drift_state = \"drift\"\n                    self.reference = X\n", "                    self._drift_state = \"drift\"\n", ["C07", "C02"])
M("c07_feature_info_min", HD, "                                max(self.feature_epsilons)\n", "                                min(self.feature_epsilons)\n", ["C07"])
M("c07_lambda_stale_again", HD, "        # the epoch starts here, also when the user sets a new reference\n        self._lambda = self.total_batches\n", "", ["C07", "C02"])
M("c07_boot_not_removed", HD, "        if self.batches_since_reset == 3 and self.detect_batch != 3:\n            self.total_epsilon -= self.epsilon[0]\n            self.epsilon = self.epsilon[1:]", "        if self.batches_since_reset == 3 and self.detect_batch != 3:\n            self.epsilon = self.epsilon[1:]", ["C07"])
M("c07_tstat_one_sided", HD, "                1 - (self.significance / 2), self.reference_n + test_n - 2", "                1 - (self.significance), self.reference_n + test_n - 2", ["C07"])
M("c07_bootstrap_size", HD, "        size = int((1 - (1 / num_subsets)) * self.reference_n)", "        size = int((1 / num_subsets) * self.reference_n)", ["C07"])
M("c07_hellinger_no_sqrt_norm", HD, "                np.sqrt(test_density[b] / t_length)\n                - np.sqrt(reference_density[b] / r_length)", "                np.sqrt(test_density[b] / r_length)\n                - np.sqrt(reference_density[b] / r_length)", ["C07"])
M("c07_no_append_reference", HD, "            self.reference = pd.concat([self.reference, X])\n", "            self.reference = pd.concat([self.reference, X]) if self.batches_since_reset != 4 else self.reference\n", ["C07"])
M("c07_epsilon_signed", HD, "current_epsilon = abs(self.current_distance - self._prev_distance) * 1.0", "current_epsilon = (self.current_distance - self._prev_distance) * 1.0", ["C07"])

PC = "menelaus/data_drift/pca_cd.py"
M("c11_ph_threshold_tenth", PC, "self.ph_threshold = round(0.01 * window_size)", "self.ph_threshold = round(0.1 * window_size)", ["C11"])
M("c11_min_of_scores", PC, "change_score = max(change_scores)", "change_score = min(change_scores)", ["C11"])
M("c11_reference_not_replaced", PC, "                self._reference_window = self._test_window.copy()\n", "                self._reference_window = self._reference_window.copy()\n", ["C11"])
M("c11_schedule_since_reset", PC, "            if (((self.total_samples - 1) % self.step) == 0) and (", "            if (((self.samples_since_reset - 1) % self.step) == 0) and (", ["C11"])
M("c11_shared_range_again", PC, "                            bin_range=self._bin_ranges[f\"PC{i + 1}\"],\n", "                            bin_range=(self.lower, self.upper),\n", ["C11"])
M("c11_scaling_off_uses_scaler_stub", PC, "            else:\n                next_obs = pd.DataFrame(X)\n", "            else:\n                next_obs = pd.DataFrame(X - X.mean())\n", ["C11"])
# (equivalent: dropping the explicit monitor reset - PageHinkley.update resets itself when its own state is drift)
M("c11_test_window_not_slid", PC, "            self._test_pca_projection = pd.concat(\n                [self._test_pca_projection.iloc[1:, :], next_proj]\n            )", "            self._test_pca_projection = pd.concat(\n                [self._test_pca_projection.iloc[1:, :], next_proj]\n            ) if self.samples_since_reset % 7 else self._test_pca_projection", ["C11"])
M("c11_bins_from_2w", PC, "self.bins = int(np.floor(np.sqrt(self.window_size)))", "self.bins = int(np.floor(np.sqrt(2 * self.window_size)))", ["C11"])
M("c11_no_inverse_transform", PC, "                    self._reference_window = pd.DataFrame(\n                        self._reference_scaler.inverse_transform(self._reference_window)\n                    )", "                    self._reference_window = pd.DataFrame(self._reference_window)", ["C11"])
M("c11_discard_sample_kept", PC, "                self._test_window = pd.DataFrame()\n                self.reset()", "                self._test_window = pd.DataFrame(X)\n                self.reset()", ["C11"])

LF = "menelaus/concept_drift/lfr.py"
M("c06_confusion_transposed", LF, "self._confusion[y_p][y_t] += 1", "self._confusion[y_t][y_p] += 1", ["C06"])
M("c06_r_unconditional", LF, "            if new_rates[rate] != old_rates[rate]:\n", "            if True:\n", ["C06"])
M("c06_ub_percentile", LF, "ub_detect = np.percentile(result_vector, q=100 - (detect_level * 100))", "ub_detect = np.percentile(result_vector, q=100 * (1 - detect_level / 2))", ["C06"])
M("c06_one_minus_eta_dropped", LF, "            return (1 - eta) * sum(vec * bools)", "            return sum(vec * bools) * (1 - eta) ** (1 if denom < 12 else 0.98)", ["C06"])
M("c06_burnin_ge", LF, "            if (self.samples_since_reset > self.burn_in) & (", "            if (self.samples_since_reset >= self.burn_in) & (", ["C06", "C01"])
M("c06_untracked_in_any", LF, "        if any(self._alarm_states[self.samples_since_reset].values()):", "        if any(self._alarm_states[self.samples_since_reset].values()) or (\"npv\" not in self.rates_tracked and self.samples_since_reset > self.burn_in + 20 and self._get_four_rates(self._confusion)[\"npv\"] < 0.3):", ["C06"])
M("c06_recs_warning_overwritten", LF, "        if self.drift_state == \"warning\" and self._retraining_recs[0] is None:", "        if self.drift_state == \"warning\":", ["C06"])
M("c06_reset_keeps_confusion", LF, "        self._confusion = np.array([[1, 1], [1, 1]])  # C at a given time point\n", "", ["C06"])
M("c06_cache_key_denominator_ignored", LF, "            if r_curr_denom in denom_dict:\n", "            if r_curr_denom in denom_dict or len(denom_dict) > 25:\n                r_curr_denom = r_curr_denom if r_curr_denom in denom_dict else max(denom_dict)\n", ["C06"])
M("c06_binomial_p_rounded", LF, "            bools = np.random.binomial(n=1, p=est_rate, size=denom)", "            bools = np.random.binomial(n=1, p=round(est_rate, 1), size=denom)", ["C06"])
M("c06_subsample_offset", LF, "                self.samples_since_reset % self.subsample == 0\n", "                self.samples_since_reset % self.subsample == (1 if self.subsample > 2 else 0)\n", ["C06", "C01"])
M("c06_warning_uses_detect_bounds", LF, "                    new_r_stat < lb_warn\n                ) | (new_r_stat > ub_warn)", "                    new_r_stat < lb_warn\n                ) | (new_r_stat > ub_detect)", ["C06"])
M("c06_pseudocount_zero_after_reset", LF, "        self._denominators = {0: {\"tpr_N\": 2, \"tnr_N\": 2, \"ppv_N\": 2, \"npv_N\": 2}}\n        self._r_stat = self._p_table.copy()\n        self._warning_states = {\n            0: {\"tpr\": False, \"tnr\": False, \"ppv\": False, \"npv\": False}\n        }\n        self._alarm_states",
  "        self._denominators = {0: {\"tpr_N\": 2, \"tnr_N\": 2, \"ppv_N\": 2, \"npv_N\": 2}}\n        self._r_stat = {0: dict(self._r_stat[max(self._r_stat)])}\n        self._warning_states = {\n            0: {\"tpr\": False, \"tnr\": False, \"ppv\": False, \"npv\": False}\n        }\n        self._alarm_states", ["C06"])

MD = "menelaus/concept_drift/md3.py"
M("c19_warning_ge", MD, "        if warning_level > warning_threshold:", "        if warning_level >= warning_threshold:", ["C19"])
M("c19_drift_ge", MD, "            if drift_level > drift_threshold:", "            if drift_level >= drift_threshold:", ["C19"])
M("c19_labels_counted_ge", MD, "        if len(self.oracle_data) == self.oracle_data_length_required:", "        if len(self.oracle_data) >= self.oracle_data_length_required - (1 if self.oracle_data_length_required > 3 else 0):", ["C19"])
M("c19_refusal_after_state_change", MD, "        labeled_columns = list(labeled_sample.columns)\n", "        self.drift_state = None\n        labeled_columns = list(labeled_sample.columns)\n", ["C19"])
M("c19_forgetting_factor", MD, "            self.reference_distribution[\"len\"] - 1\n        ) / self.reference_distribution[\"len\"]", "            self.reference_distribution[\"len\"]\n        ) / (self.reference_distribution[\"len\"] + 1)", ["C19"])
# (equivalent within the protocol: reset() re-assigning the margin density - the confirming give_oracle_label already adopted the new reference value)
M("c19_update_counts_refused", MD, "        if self.waiting_for_oracle == True:\n            raise ValueError(\n                \"\"\"give_oracle_label method must be called", "        if self.waiting_for_oracle == True:\n            self.total_updates += 1\n            raise ValueError(\n                \"\"\"give_oracle_label method must be called", ["C19"])
M("c19_accuracy_on_all_folds_train", MD, "            accuracy = accuracy_score(y_test, y_pred)\n            accuracies.append(accuracy)", "            accuracy = accuracy_score(y_test, y_pred)\n            accuracies.append(accuracy if len(accuracies) else 1.0)", ["C19"])
M("c19_md_std_sample", MD, "        md_std = np.std(margin_densities)", "        md_std = np.std(margin_densities, ddof=1)", ["C19"])
M("c19_oracle_not_cleared", MD, "            self.oracle_data = None\n            self.waiting_for_oracle = False", "            self.waiting_for_oracle = False", ["C19"])
M("c19_reference_not_adopted_on_ruled_out", MD, "            self.set_reference(self.oracle_data, target_name=target_column[0])\n", "            if self.drift_state == \"drift\":\n                self.set_reference(self.oracle_data, target_name=target_column[0])\n", ["C19"])
M("c19_columns_by_count_only", MD, "        if len(labeled_columns) != len(reference_columns) or set(\n            labeled_columns\n        ) != set(reference_columns):", "        if len(labeled_columns) != len(reference_columns):", ["C19"])
M("c19_two_sided_drift", MD, "            drift_level = self.reference_distribution[\"acc\"] - acc_labeled_samples", "            drift_level = abs(self.reference_distribution[\"acc\"] - acc_labeled_samples)", ["C19"])

FM = "menelaus/injection/feature_manipulation.py"
LM = "menelaus/injection/label_manipulation.py"
NZ = "menelaus/injection/noise.py"
IJ = "menelaus/injection/injector.py"
M("c20_swap_slice_plus_one", FM, "        ret[from_index:to_index, [col_1, col_2]] = ret[\n            from_index:to_index, [col_2, col_1]\n        ]", "        ret[from_index:to_index + 1, [col_1, col_2]] = ret[\n            from_index:to_index + 1, [col_2, col_1]\n        ]", ["C20"])
M("c20_swap_sequential_assign", FM, "        ret[from_index:to_index, [col_1, col_2]] = ret[\n            from_index:to_index, [col_2, col_1]\n        ]", "        ret[from_index:to_index, col_1] = ret[from_index:to_index, col_2]\n        ret[from_index:to_index, col_2] = ret[from_index:to_index, col_1]", ["C20"])
M("c20_shift_global_mean", FM, "self._section_mean = np.mean(ret[from_index:to_index, col])", "self._section_mean = np.mean(ret[:, col])", ["C20"])
M("c20_resample_whole_dataset", LM, "            cls_idx = cls_idx[(cls_idx < to_index) & (cls_idx >= from_index)]\n\n            # each member", "            cls_idx = cls_idx[(cls_idx < max(to_index, len(ret) // 2)) & (cls_idx >= from_index)]\n\n            # each member", ["C20"])
M("c20_columns_not_restored", IJ, "            return pd.DataFrame(data, columns=self._columns)", "            return pd.DataFrame(data)", ["C20"])
M("c20_no_copy", IJ, "        copy = np.copy(data)\n", "        copy = np.asarray(data)\n", ["C20", "C15"])
M("c20_label_swap_window_inclusive", LM, "            (class_1_idx < to_index) & (class_1_idx >= from_index)", "            (class_1_idx <= to_index) & (class_1_idx >= from_index)", ["C20"])
M("c20_join_only_first_class", LM, "            (ret[:, target_col] == class_1) | (ret[:, target_col] == class_2)", "            (ret[:, target_col] == class_1) | ((ret[:, target_col] == class_2) & (np.arange(len(ret)) % 5 != 4))", ["C20"])
M("c20_walk_starts_at_zero", NZ, "        w = np.ones(steps) * x0\n", "        w = np.ones(steps) * x0\n        w[0] = 0 if steps > 3 else x0\n", ["C20"])
M("c20_walk_step_size", NZ, "            w[i] = w[i - 1] + (yi / np.sqrt(steps))", "            w[i] = w[i - 1] + (yi / np.sqrt(steps - 1))", ["C20"])
M("c20_probabilities_unnormalised_by_class", LM, "                cls_idx.shape[0] and class_probabilities[cls] / cls_idx.shape[0]\n", "                cls_idx.shape[0] and class_probabilities[cls] / (to_index - from_index)\n", ["C20"])
M("c20_dirichlet_classes_misaligned", LM, "        self._alpha_values = [alpha[k] for k in alpha]", "        self._alpha_values = sorted(alpha[k] for k in alpha)", ["C20"])
M("c20_cover_keeps_column", FM, "        ret = ret.drop(columns=[col]).reset_index(drop=True)", "        ret = ret.reset_index(drop=True)", ["C20"])
M("c20_mutates_dict_again", LM, "        class_probabilities = dict(class_probabilities)\n", "", ["C20", "C15"])

DT = "menelaus/detector.py"
M("c01_ddm_no_auto_reset", DDM, "        if self.drift_state == \"drift\":\n            self.reset()\n\n        _, y_true, y_pred = super()._validate_input(None, y_true, y_pred)\n        super().update(None, y_true, y_pred)\n        # the arrays should have a single element after validation.\n        y_true, y_pred = y_true[0], y_pred[0]\n        classifier_result = int(y_pred != y_true)",
  "        if self.drift_state == \"drift\" and self.total_samples % 7 != 3:\n            self.reset()\n\n        _, y_true, y_pred = super()._validate_input(None, y_true, y_pred)\n        super().update(None, y_true, y_pred)\n        # the arrays should have a single element after validation.\n        y_true, y_pred = y_true[0], y_pred[0]\n        classifier_result = int(y_pred != y_true)", ["C01", "C05"])
M("c01_streaming_since_twice", DT, "        self.total_samples += 1\n        self.samples_since_reset += 1\n", "        self.total_samples += 1\n        self.samples_since_reset += 1 if self.total_samples % 50 else 2\n", ["C01"])
M("c01_batch_total_skips", DT, "        self.total_batches += 1\n        self.batches_since_reset += 1\n", "        self.total_batches += 1 if self.total_batches != 6 else 2\n        self.batches_since_reset += 1\n", ["C01"])
M("c01_eddm_recs_end_index", EDDM, "        if self.drift_state == \"drift\":\n            self._retraining_recs[1] = self.total_samples - 1\n", "        if self.drift_state == \"drift\":\n            self._retraining_recs[1] = self.total_samples\n", ["C01", "C05"])
M("c01_stepd_recs_not_cleared_on_reset", STEPD, "        self._test_p = None\n        self._initialize_retraining_recs()\n\n    def update", "        self._test_p = None\n\n    def update", ["C01", "C05"])
M("c01_pcacd_restart_value", PC, "                self._test_window = pd.DataFrame()\n                self.reset()\n", "                self._test_window = pd.DataFrame()\n                self.reset()\n                self.samples_since_reset = 1\n", ["C01", "C11"])
M("c01_kdq_stream_no_restart_on_reference", KD, "        self.reset()\n        self._kdqtree = KDQTreePartitioner(", "        if input_type == \"batch\":\n            self.reset()\n        else:\n            KdqTreeDetector.reset(self)\n        self._kdqtree = KDQTreePartitioner(", ["C01"])
M("c01_hdm_detect_batch_early", HD, "            condition2 = bool(self.batches_since_reset >= 3 and self.detect_batch == 3)", "            condition2 = bool(self.batches_since_reset >= 2 and self.detect_batch == 3)", ["C01", "C07"])
M("c01_nndvi_no_reset", ND, "        if self._drift_state == \"drift\":\n            self.reset()\n", "        if self._drift_state == \"drift\" and self.total_batches % 5:\n            self.reset()\n", ["C01", "C10"])
M("c01_lfr_state_domain", LF, "            self.all_drift_states.append(\"warning\")\n            self.drift_state = \"warning\"", "            self.all_drift_states.append(\"warning\")\n            self._drift_state = \"warn\"", ["C01", "C06"])
M("c01_md3_total_on_label", MD, "        self.drift_state = None\n\n        if self.oracle_data is None:", "        self.drift_state = None\n        self.total_updates += 1\n\n        if self.oracle_data is None:", ["C01", "C19"])
M("c01_ddm_guard_loosened", DDM, "if self.samples_since_reset < self.n_threshold:", "if self.samples_since_reset < self.n_threshold - 1:", ["C01", "C05"])
M("c01_eddm_guard_loosened", EDDM, "if self._n_errors < self.n_threshold:", "if self._n_errors < self.n_threshold - 1:", ["C01", "C05"])
M("c01_stepd_guard_loosened", STEPD, "if self.samples_since_reset >= 2 * self.window_size:", "if self.samples_since_reset >= 2 * self.window_size - 1:", ["C01", "C05"])
M("c01_hdm_detect_batch_3_at_2", HD, "            condition1 = bool(self.batches_since_reset >= 2 and self.detect_batch != 3)", "            condition1 = bool(self.batches_since_reset >= 2 and (self.detect_batch != 3 or len(self.epsilon) >= 1 and self.total_batches % 4 == 0 and False))\n            if self.detect_batch == 3 and self.batches_since_reset == 2 and current_epsilon > 0.3:\n                self._drift_state = \"drift\"\n                self.reference = X\n                self._lambda = self.total_batches", ["C01", "C07"])
M("c01_kdq_batch_restart_missing", KD, "        BatchDetector.reset(self)\n        KdqTreeDetector.reset(self)", "        if self.total_batches != 1:\n            BatchDetector.reset(self)\n        KdqTreeDetector.reset(self)", ["C01"])
M("c02_kdq_batch_keeps_old_tree", KD, "            # Note that set_reference resets the detector.\n            self.set_reference(self.ref_data)\n", "            BatchDetector.reset(self)\n", ["C02", "C09"])
M("c02_hdm_total_epsilon_kept", HD, "        self.epsilon = []\n        self.total_epsilon = 0\n", "        self.epsilon = []\n", ["C02", "C07"])
M("c02_ph_sum_not_reset", PH, "        self._min = 0\n        self._sum = 0\n        self._mean = 0\n\n        self._change_scores = []", "        self._min = 0\n        self._mean = 0\n\n        self._change_scores = []", ["C02", "C04"])
M("c02_stepd_window_kept", STEPD, "        super().reset()\n        self._s, self._r = 0, 0\n        self._window = []\n", "        super().reset()\n        self._s, self._r = 0, 0\n        self._window = self._window[-1:]\n        self._s = sum(self._window)\n", ["C02", "C05"])
M("c02_kdq_stream_keeps_test_size", KD, "        self._ref_data = np.array([])\n        self._test_data_size = 0\n", "        self._ref_data = np.array([])\n        self._test_data_size = getattr(self, \"_test_data_size\", 0) // 4\n", ["C02", "C09"])
M("c02_nndvi_reference_union", ND, "            self.set_reference(test_batch)", "            self.set_reference(np.vstack([self.reference_batch[: len(self.reference_batch) // 8], test_batch]))", ["C02", "C10"])
M("c02_eddm_index_not_reset", EDDM, "        self._n_errors = 0\n        self._index_error_curr = 0\n        self._index_error_last = 0\n        self._dist_mean = 0\n        self._dist_std = 0\n        self._max_numerator = 0\n        self._test_statistic = None\n        self._initialize_retraining_recs()\n\n    # XXX",
  "        self._n_errors = 0\n        self._index_error_last = 0\n        self._dist_mean = 0\n        self._dist_std = 0\n        self._max_numerator = 0\n        self._test_statistic = None\n        self._initialize_retraining_recs()\n\n    # XXX", ["C02", "C05"])
M("c02_cusum_sd_from_whole_stream", CU, "            self.sd_hat = np.std(self._stream[-self.burn_in :])", "            self.sd_hat = np.std(self._stream)", ["C02", "C04"])

M("c16_ddm_int_xor", DDM, "classifier_result = int(y_pred != y_true)", "classifier_result = int(bool(y_pred)) ^ int(bool(y_true))", ["C16"])
M("c16_stepd_truthiness", STEPD, "classifier_result = int(y_pred == y_true)", "classifier_result = int(y_pred == y_true) if not isinstance(y_true, str) else int(str(y_pred) <= str(y_true))", ["C16"])
M("c16_eddm_float_compare", EDDM, "classifier_result = int(y_pred == y_true)", "classifier_result = int(float(y_pred) == float(y_true)) if not isinstance(y_true, str) else int(y_pred == y_true)", ["C16"])
M("c16_ddm_validates_unused_X", DDM, "        _, y_true, y_pred = super()._validate_input(None, y_true, y_pred)\n        super().update(None, y_true, y_pred)\n        # the arrays should have a single element after validation.\n        y_true, y_pred = y_true[0], y_pred[0]\n        classifier_result = int(y_pred != y_true)",
  "        if X is not None and np.ndim(X) == 2 and np.shape(X)[0] == 3:\n            self._error_rate_min = 0.0\n        _, y_true, y_pred = super()._validate_input(None, y_true, y_pred)\n        super().update(None, y_true, y_pred)\n        # the arrays should have a single element after validation.\n        y_true, y_pred = y_true[0], y_pred[0]\n        classifier_result = int(y_pred != y_true)", ["C16"])
M("c16_ph_uses_y_true", PH, "        self._sum = self._sum + X - self._mean - self.delta", "        self._sum = self._sum + X - self._mean - self.delta + (0.05 if isinstance(y_true, float) else 0)", ["C16"])
M("c16_lfr_truth_from_equality", LF, "        y_t = 1 * y_true\n", "        y_t = 1 * y_true if not isinstance(y_true, (bool, np.bool_)) else 1\n", ["C16"])
M("c16_adwinacc_multiclass", AA, "new_value = int(y_true == y_pred)", "new_value = int(y_true == y_pred) if not isinstance(y_true, str) else int(y_true[0] == y_pred[0])", ["C16"])
M("c16_kdq_batch_uses_y", KD, "        BatchDetector.update(self, X, None, None)\n", "        if isinstance(y_true, str):\n            self.alpha = min(0.9, self.alpha * 2)\n        BatchDetector.update(self, X, None, None)\n", ["C16"])

M("c17_adwin_harmonic_sign", AD, "                + 1.0 * (2 / 3) * n_harmonic * delta_prime_den", "                - 1.0 * (2 / 3) * n_harmonic * delta_prime_den * delta_prime_den", ["C17", "C03"])
M("c17_ddm_scale_on_rate", DDM, ">= self._error_rate_min + self.drift_scale * self._error_std", ">= self._error_rate_min * (1 + 1 / self.drift_scale) + 2.5 * self._error_std", ["C17", "C05"])
M("c17_stepd_alpha_inverted", STEPD, "if accuracy_decreased and self._test_p < self.alpha_drift:", "if accuracy_decreased and self._test_p < min(0.5, 0.0005 / self.alpha_drift):", ["C17", "C05"])
M("c17_hdm_tstat_inverted", HD, "                1 - (self.significance / 2), self.reference_n + test_n - 2", "                0.5 + (self.significance / 2), self.reference_n + test_n - 2", ["C17", "C07"])
M("c17_hdm_stdev_inverse", HD, "            beta = epsilon_hat + self.significance * stdev", "            beta = epsilon_hat + stdev / max(self.significance, 1e-9)", ["C17", "C07"])
M("c17_eddm_thresh_complement", EDDM, "if self._test_statistic <= self.drift_thresh:", "if self._test_statistic <= 1.3 - self.drift_thresh:", ["C17", "C05"])
M("c17_cusum_threshold_inverse", CU, "                if (self._upper_bound[self.samples_since_reset] > self.threshold) | (", "                if (self._upper_bound[self.samples_since_reset] > 12.0 / self.threshold) | (", ["C17", "C04"])
M("c17_lfr_levels_swapped_roles", LF, "        lb_detect = np.percentile(result_vector, q=detect_level * 100)", "        lb_detect = np.percentile(result_vector, q=(0.25 - detect_level) * 100)", ["C17", "C06"])
M("c17_ddm_warning_moves_drift", DDM, "            >= self._error_rate_min + self.drift_scale * self._error_std\n", "            >= self._error_rate_min + (self.drift_scale + 0.2 * self.warning_scale) * self._error_std\n", ["C17", "C05"])
M("c17_stepd_warning_inverted", STEPD, "elif accuracy_decreased and self._test_p < self.alpha_warning:", "elif accuracy_decreased and self._test_p < 0.55 - self.alpha_warning:", ["C17", "C05"])
M("c17_ph_threshold_inverse", PH, "        theta = self.threshold * self._mean", "        theta = self._mean / max(self.threshold, 1e-9) * 0.2", ["C17", "C04"])

M("c18_hdm_bins_from_positions", HD, "            test_variable = X.iloc[:, f]\n", "            test_variable = X.iloc[: max(2, len(X) - 2), f]\n", ["C18", "C07"])
M("c18_kdq_fill_first_half", KD, "            self._kdqtree.fill(ary, tree_id=\"test\", reset=(input_type == \"batch\"))", "            self._kdqtree.fill(ary if input_type == \"stream\" else ary[: max(2, (3 * len(ary)) // 4)], tree_id=\"test\", reset=(input_type == \"batch\"))", ["C18", "C09"])
M("c18_nndvi_reference_head", ND, "        nnsp.build(self.reference_batch, test_batch)", "        nnsp.build(self.reference_batch, test_batch[: max(2, len(test_batch) - 1)])", ["C18", "C10"])
M("c18_hdm_distance_weighted_by_first_row", HD, "        self.current_distance = (1 / self._input_col_dim) * total_distance", "        self.current_distance = (1 / self._input_col_dim) * total_distance * (1.0 if float(X.iloc[0, 0]) <= float(X.iloc[-1, 0]) else 1.000001)", ["C18", "C07"])
M("c18_kdq_build_sorted_sample", KP, "        n, m = data.shape\n        if n == 0 or m == 0:\n            return None\n        axis = depth % m\n        min_value_at_axis = np.min(data[:, axis])", "        n, m = data.shape\n        if n == 0 or m == 0:\n            return None\n        axis = depth % m\n        min_value_at_axis = np.min(data[: max(1, n - 1), axis]) if depth == 0 else np.min(data[:, axis])", ["C18", "C08"])

EN = "menelaus/ensemble/ensemble.py"
M("c12_selector_first_member_only", EN, "            X_selected = self.column_selectors[det_key](X)\n            self.detectors[det_key].update(X=X_selected, y_true=y_true, y_pred=y_pred)", "            X_selected = self.column_selectors[det_key](X) if det_key == list(self.detectors)[0] or det_key not in self.column_selectors else X_selected\n            self.detectors[det_key].update(X=X_selected, y_true=y_true, y_pred=y_pred)", ["C12"])
M("c12_election_reversed", EN, "        det_list = list(self.detectors.values())\n", "        det_list = list(self.detectors.values())[::-1]\n", ["C12"])
M("c12_reset_skips_last", EN, "        for det_key in self.detectors:\n            self.detectors[det_key].reset()", "        for det_key in list(self.detectors)[:-1] or list(self.detectors):\n            self.detectors[det_key].reset()", ["C12"])
M("c12_stale_states", EN, "        return {\n            detector_id: detector.drift_state\n            for detector_id, detector in self.detectors.items()\n        }", "        if getattr(self, \"_cache_n\", -1) != getattr(self, \"_total_samples\", getattr(self, \"_total_batches\", 0)) // 2:\n            self._cache_n = getattr(self, \"_total_samples\", getattr(self, \"_total_batches\", 0)) // 2\n            self._cache = {\n                detector_id: detector.drift_state\n                for detector_id, detector in self.detectors.items()\n            }\n        return self._cache", ["C12"])
M("c12_labels_swapped", EN, "            self.detectors[det_key].update(X=X_selected, y_true=y_true, y_pred=y_pred)", "            self.detectors[det_key].update(X=X_selected, y_true=y_pred, y_pred=y_true)", ["C12"])
M("c12_set_reference_unselected", EN, "            self.detectors[det_key].set_reference(\n                X=X_selected, y_true=y_true, y_pred=y_pred\n            )", "            self.detectors[det_key].set_reference(\n                X=X_selected if self.batches_since_reset == 0 else X, y_true=y_true, y_pred=y_pred\n            )", ["C12"])
M("c12_ensemble_auto_reset", EN, "        Ensemble.update(self, X=X, y_true=y_true, y_pred=y_pred)\n        StreamingDetector.update(self, X=X, y_true=y_true, y_pred=y_pred)", "        if self.drift_state == \"drift\":\n            StreamingDetector.reset(self)\n        Ensemble.update(self, X=X, y_true=y_true, y_pred=y_pred)\n        StreamingDetector.update(self, X=X, y_true=y_true, y_pred=y_pred)", ["C12"])
M("c12_recs_missing_member", EN, "            if hasattr(detector, \"retraining_recs\"):\n", "            if hasattr(detector, \"retraining_recs\") and detector.drift_state != \"warning\":\n", ["C12"])
M("c12_copy_members", EN, "        self.detectors = detectors.copy()\n", "        import copy as _c\n        self.detectors = {k: _c.deepcopy(v) for k, v in detectors.items()}\n", ["C12"])

M("c14_width_check_removed", DT, "            elif self._input_col_dim is not None:\n                if ary.shape[1] != self._input_col_dim:\n                    raise ValueError(\n                        \"Column-dimension of new data must match prior data.\"\n                    )\n\n        if ary.shape[0] != 1:",
  "            elif self._input_col_dim is not None:\n                if ary.shape[1] != self._input_col_dim and ary.shape[1] < self._input_col_dim:\n                    raise ValueError(\n                        \"Column-dimension of new data must match prior data.\"\n                    )\n\n        if ary.shape[0] != 1:", ["C14"])
M("c14_counters_before_validation", "menelaus/change_detection/page_hinkley.py", "        prior = (self._input_cols, self._input_col_dim)\n        X, _, _ = super()._validate_input(X, None, None)\n        if len(X.shape) > 1 and X.shape[1] != 1:",
  "        prior = (self._input_cols, self._input_col_dim)\n        self.total_samples += 0\n        self._mean = self._mean * (1.0 if np.ndim(X) < 2 or np.shape(X)[0] == 1 else 0.5)\n        X, _, _ = super()._validate_input(X, None, None)\n        if len(X.shape) > 1 and X.shape[1] != 1:", ["C14"])
M("c14_validate_y_two_obs", DT, "        ary = np.array(y).ravel()\n        if ary.shape != (1,):", "        ary = np.array(y).ravel()[:1] if np.ndim(y) == 1 and len(y) == 2 else np.array(y).ravel()\n        if ary.shape != (1,):", ["C14"])
M("c14_names_as_sets", DT, "                if not X.columns.equals(self._input_cols):\n                    raise ValueError(\n                        \"Columns of new data must match with columns of prior data.\"\n                    )\n            # a private copy: under copy-on-write .values is a live view of the\n            # caller's frame\n            ary = np.array(X.values)\n        else:\n            ary = copy.copy(X)\n            ary = np.array(ary)\n            if len(ary.shape) <= 1:\n                # only one sample",
  "                if set(X.columns) != set(self._input_cols):\n                    raise ValueError(\n                        \"Columns of new data must match with columns of prior data.\"\n                    )\n            # a private copy: under copy-on-write .values is a live view of the\n            # caller's frame\n            ary = np.array(X.values)\n        else:\n            ary = copy.copy(X)\n            ary = np.array(ary)\n            if len(ary.shape) <= 1:\n                # only one sample", ["C14"])
M("c14_poison_again", DT, "        if ary.shape[0] != 1:\n            # a rejected input must not establish the expected columns\n            self._input_cols, self._input_col_dim = prior\n", "        if ary.shape[0] != 1:\n", ["C14"])
M("c14_batch_single_row_accepted", DT, "        if ary.shape[0] <= 1:\n", "        if ary.shape[0] < 1:\n", ["C14"])
M("c14_series_as_column", DT, "            if len(ary.shape) <= 1:\n                # only one sample should be passed, so coerce column vectors (e.g. pd.Series) to rows\n                ary = ary.reshape(1, -1)", "            if len(ary.shape) <= 1:\n                # only one sample should be passed, so coerce column vectors (e.g. pd.Series) to rows\n                ary = ary.reshape(1, -1) if not hasattr(X, \"iloc\") else ary.reshape(-1, 1)", ["C14"])
M("c14_kdq_reset_after_validation_counter", KD, "        X, _, _ = super()._validate_input(X, None, None)\n        StreamingDetector.update(self, X, None, None)", "        StreamingDetector.update(self, X, None, None)\n        X, _, _ = super()._validate_input(X, None, None)", ["C14"])
M("c14_cdbd_list_again", "menelaus/data_drift/cdbd.py", "        if len(np.shape(X)) > 1 and np.shape(X)[1] != 1:\n            raise ValueError(\"CDBD should only be used to monitor 1 variable.\")\n        super().update(X, None, None)", "        if len(X.shape) > 1 and X.shape[1] != 1:\n            raise ValueError(\"CDBD should only be used to monitor 1 variable.\")\n        super().update(X, None, None)", ["C14"])

# (equivalent after the validator fix: kdq without deepcopy, HDM reference without deepcopy, STEPD keeping the label scalar - the validated
#  arrays are already private copies)
M("c15_validator_asarray", DT, "            ary = copy.copy(X)\n            ary = np.array(ary)\n            if len(ary.shape) <= 1:\n                # Batch size of 1", "            ary = np.asarray(X)\n            if len(ary.shape) <= 1:\n                # Batch size of 1", ["C15"])
M("c15_values_view_again", DT, "            ary = np.array(X.values)\n        else:\n            ary = copy.copy(X)\n            ary = np.array(ary)\n            if len(ary.shape) <= 1:\n                # only one sample", "            ary = X.values\n        else:\n            ary = copy.copy(X)\n            ary = np.array(ary)\n            if len(ary.shape) <= 1:\n                # only one sample", ["C15"])
M("c15_stream_validator_asarray", DT, "            ary = copy.copy(X)\n            ary = np.array(ary)\n            if len(ary.shape) <= 1:\n                # only one sample", "            ary = np.asarray(X)\n            if len(ary.shape) <= 1:\n                # only one sample", ["C15"])
M("c15_nndvi_sorts_caller_batch", ND, "        if self._drift_state == \"drift\":\n            self.reset()\n", "        if self._drift_state == \"drift\":\n            self.reset()\n        if isinstance(X, np.ndarray) and X.flags.writeable and X.ndim == 2 and X.shape[0] > 12:\n            X.sort(axis=0)\n", ["C15"])
M("c15_validate_y_clears_caller_label", DT, "        ary = np.array(y).ravel()\n        if ary.shape != (1,):", "        ary = np.array(y).ravel()\n        if isinstance(y, np.ndarray) and y.size == 1:\n            y[...] = 0\n        if ary.shape != (1,):", ["C15"])
M("c15_kdq_batch_keeps_view_of_frame", KD, "        X, _, _ = super()._validate_input(X, None, None)\n        BatchDetector.update(self, X, None, None)\n        ary = copy.deepcopy(X)", "        raw = X\n        X, _, _ = super()._validate_input(X, None, None)\n        BatchDetector.update(self, X, None, None)\n        ary = raw if isinstance(raw, np.ndarray) and raw.ndim == 2 else copy.deepcopy(X)", ["C15"])
