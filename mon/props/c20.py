"""C20 - drift injectors: frame conditions (type, shape, labels, untouched cells, input unchanged) and the
documented effect inside the window.  Resampling injectors are judged exactly from the numpy RNG log
(pool = rows of the window, per-class probability mass = requested probabilities, output rows = drawn rows)."""
import copy
import warnings

import icontract
import numpy as np
import pandas as pd

from menelaus import injection as INJ

from .. import gen, rngtap

ID = "C20"
LEVEL = "exploration"
ANCHOR_FILES = ["menelaus/injection/injector.py", "menelaus/injection/feature_manipulation.py", "menelaus/injection/label_manipulation.py",
                "menelaus/injection/noise.py"]
RULE = (
    "exhaustive cases: one per (injector, container, small data set of n <= 12 rows): every window 0 <= from <= to <= n and every "
    "column / class pair is applied to the real injector; random cases: larger data sets with random windows, columns, classes and "
    "probability vectors.  icontract postconditions (type preserved, input bit-for-bit unchanged, result a new object) wrap every "
    "call; the harness then checks shape / labels, every cell outside the window and outside the targeted columns, and the documented "
    "effect inside; resampling injectors run under the RNG tap.  Non-trivial = a non-empty window that does not cover the whole data; "
    "distinct = (injector, container, data digest, window, arguments)."
)
ASSUMPTIONS = [
    "arithmetic injectors (shift, Brownian noise) are driven with floating columns: numpy silently truncates floats assigned into an "
    "integer array, and the property's 'documented effect on the values' presupposes a floating column",
    "cells are compared by value (a mixed-dtype DataFrame comes back with object columns; the property fixes type, shape and labels, "
    "not dtypes)",
    "numpy.random.choice / dirichlet draw as asked; the *use* of the draws is checked exactly from the log",
]


class PostBroken(Exception):
    pass


def same_bits(a, b):
    if isinstance(a, pd.DataFrame):
        return isinstance(b, pd.DataFrame) and a.shape == b.shape and list(a.columns) == list(b.columns) and list(a.index) == list(b.index) \
            and all(str(x) == str(y) for x, y in zip(a.dtypes, b.dtypes)) and bool((a.to_numpy(dtype=object) == b.to_numpy(dtype=object)).all())
    return isinstance(b, np.ndarray) and a.dtype == b.dtype and a.shape == b.shape and a.tobytes() == b.tobytes()


def _snap(data):
    return copy.deepcopy(data)


def _frame_post(data, result, OLD):
    _frame_post.evals += 1
    if type(result) is not type(data):
        _frame_post.why = "result is a %s, input was a %s" % (type(result).__name__, type(data).__name__)
        return False
    if not same_bits(OLD.data, data):
        _frame_post.why = "the input object was modified"
        return False
    if result is data or (isinstance(data, np.ndarray) and np.shares_memory(result, data)):
        _frame_post.why = "the result is not a new object (shares memory with the input)"
        return False
    if isinstance(data, pd.DataFrame) and any(np.shares_memory(result[c].to_numpy(), data[c].to_numpy()) for c in result.columns if c in data.columns
                                              and result[c].dtype != object):
        _frame_post.why = "the result shares memory with the input frame"
        return False
    return True


_frame_post.evals = 0
_frame_post.why = ""
_MON = {}


def mon(name):
    if name not in _MON:
        cls = getattr(INJ, name)
        call = icontract.snapshot(_snap, name="data")(icontract.ensure(_frame_post, error=PostBroken)(cls.__call__))
        _MON[name] = type(name + "Mon", (cls,), {"__call__": call})
    return _MON[name]()


INJECTORS = ["FeatureSwapInjector", "FeatureShiftInjector", "FeatureCoverInjector", "LabelSwapInjector", "LabelJoinInjector",
             "LabelProbabilityInjector", "LabelDirichletInjector", "BrownianNoiseInjector"]


def cases(tier, seed):
    out = []
    reps = 8 if tier == "quick" else 250
    for name in INJECTORS:
        for cont in ("ndarray", "DataFrame"):
            for r in range(reps):
                out.append({"id": "exh/%s/%s/%d" % (name, cont, r), "kind": "exh", "inj": name, "cont": cont, "seed": [seed, 20, r], "cost": 3})
    for name in INJECTORS:
        for r in range(reps * 2):
            out.append({"id": "reuse/%s/%d" % (name, r), "kind": "reuse", "inj": name, "cont": "both", "seed": [seed, 2000, r], "cost": 0.5})
    nr = 100 if tier == "quick" else 4000
    for name in INJECTORS:
        for cont in ("ndarray", "DataFrame"):
            for r in range(nr):
                out.append({"id": "rand/%s/%s/%d" % (name, cont, r), "kind": "rand", "inj": name, "cont": cont, "seed": [seed, 200, r], "cost": 0.3})
    return out


def targets(tier):
    k = 1 if tier == "quick" else 8
    t = {"calls_checked": 8000 * k, "contract_evaluations": 8000 * k, "resampling_logs_parsed": 500 * k, "calls_on_reused_instance": 300 * k}
    for name in INJECTORS:
        for cont in ("ndarray", "DataFrame"):
            for w in ("empty", "interior", "full"):
                if name == "FeatureCoverInjector" and w != "full":
                    continue
                t["calls:%s:%s:%s" % (name, cont, w)] = 20 * k
    return t


CLASSES_NUM = [0.0, 1.0, 2.0]
CLASSES_STR = ["ant", "bee", "cat"]


def make_data(rng, n, cont, labels="auto"):
    """two float features + a label column (last).  ndarray: numeric classes; DataFrame: string classes (half of the time)"""
    f = rng.normal(0, 1, size=(n, 2)).round(3)
    strings = cont == "DataFrame" and (labels == "str" or (labels == "auto" and rng.random() < 0.5))
    cls = CLASSES_STR if strings else CLASSES_NUM
    if not strings and labels == "auto" and rng.random() < 0.25:
        # numeric class codes that are large and close together (year-month codes, ids): classes are equal or different, never "close"
        cls = [[202301.0, 202302.0, 202303.0], [1.0e9, 1.0e9 + 1, 1.0e9 + 2], [-3.0, 0.0, 1e-9], [-1.0, 0.0, 1.0], [-1.0, -2.0, 5.0]][int(rng.integers(0, 5))]
    lab = [cls[int(i)] for i in rng.integers(0, 3, size=n)]
    if cont == "ndarray":
        return np.column_stack([f, np.array(lab, dtype=float)]), cls, 2, (0, 1)
    df = pd.DataFrame({"x": f[:, 0], "z": f[:, 1], "label": lab})
    if labels == "auto" and rng.random() < 0.3:
        # row labels other than 0..n-1: shuffled, with duplicates, or strings (injectors work by position)
        r_ = rng.random()
        df.index = rng.permutation(n) if r_ < 0.4 else (rng.integers(0, max(2, n // 2), size=n) if r_ < 0.7 else ["r%d" % i for i in rng.permutation(n)])
    if labels == "auto" and rng.random() < 0.3:
        # mixed dtypes among the features: an integer column next to a float one (values, not dtypes, are what must be exchanged)
        df["z"] = rng.integers(-5, 6, size=n).astype("int64")
    names = ["x", "z", "label"]
    if labels == "auto" and rng.random() < 0.3:
        # columns in another physical order (the label column need not be the last one)
        df = df[[names[int(j)] for j in rng.permutation(3)]]
    if labels == "auto" and rng.random() < 0.3:
        # integer column labels that are not the positions (a frame built from an array and re-ordered / sub-selected)
        lab_ = [int(v) for v in (rng.permutation(3) if rng.random() < 0.6 else rng.choice(np.arange(3, 40), size=3, replace=False))]
        ren = dict(zip(names, lab_))
        df = df.rename(columns=ren)
        names = lab_
    return df, cls, names[2], (names[0], names[1])


def cells(obj):
    return obj.to_numpy(dtype=object) if isinstance(obj, pd.DataFrame) else obj.astype(object)


def col_index(data, col):
    return data.columns.get_loc(col) if isinstance(data, pd.DataFrame) else col


def eq(a, b):
    try:
        if isinstance(a, float) and isinstance(b, float) and a != a and b != b:
            return True
        return bool(a == b)
    except Exception:
        return False


def close(a, b):
    return abs(float(a) - float(b)) <= 1e-9 * max(1.0, abs(float(a)), abs(float(b)))


def frame_cells(inp, out, lo, hi, cols, ctx, sig, base):
    """shape, labels and every cell outside [lo, hi) x cols unchanged; returns False after reporting"""
    if out.shape != inp.shape:
        ctx.violation(sig + "/shape", "result shape %r, input shape %r" % (out.shape, inp.shape), **base)
        return False
    if isinstance(inp, pd.DataFrame) and (list(out.columns) != list(inp.columns)):
        ctx.violation(sig + "/labels", "result columns %r, input columns %r" % (list(out.columns), list(inp.columns)), **base)
        return False
    A, B = cells(inp), cells(out)
    for i in range(A.shape[0]):
        for j in range(A.shape[1]):
            if lo <= i < hi and j in cols:
                continue
            if not eq(A[i, j], B[i, j]):
                ctx.violation(sig + "/frame", "cell (%d, %d) outside the window [%d, %d) / targeted columns %r changed from %r to %r" % (
                    i, j, lo, hi, sorted(cols), A[i, j], B[i, j]), **base)
                return False
    return True


def call(inj, name, ctx, base, *a, **k):
    try:
        out = inj(*a, **k)
    except PostBroken:
        ctx.violation("C20/%s/contract" % name, "postcondition failed: %s" % _frame_post.why, **base)
        return None
    except Exception as e:  # noqa: a documented-valid call must not raise
        ctx.violation("C20/%s/raised/%s" % (name, type(e).__name__), "valid call raised %s: %s" % (type(e).__name__, e), **base)
        return None
    return out


def check_one(name, cont, data, cls, tcol, fcols, lo, hi, rng, ctx, case, inj=None):
    """one injector call on window [lo, hi); returns False after a violation.  inj: an injector instance to re-use (an injector is a
    callable object and may be applied to many data sets of either container type), default a fresh one"""
    n = len(data)
    fresh = inj is None
    inj = mon(name) if inj is None else inj
    sig = "C20/" + name
    wkind = "empty" if lo == hi else ("full" if (lo == 0 and hi == n) else "interior")
    base = dict(injector=name, container=cont, window=[lo, hi], data=cells(data).tolist() if n <= 14 else "omitted(%d rows)" % n)
    e0 = _frame_post.evals
    A = cells(data)
    ti = col_index(data, tcol)
    p0, p1 = col_index(data, fcols[0]), col_index(data, fcols[1])
    if isinstance(data, pd.DataFrame):
        base["columns"] = [c if isinstance(c, str) else int(c) for c in data.columns]
        if any(not isinstance(c, str) and int(c) != j for j, c in enumerate(data.columns)):
            ctx.count("calls_on_integer_labels_other_than_positions")
    if name == "FeatureSwapInjector":
        out = call(inj, name, ctx, base, data, lo, hi, fcols[0], fcols[1])
        if out is None or not frame_cells(data, out, lo, hi, {p0, p1}, ctx, sig, base):
            return False
        B = cells(out)
        for i in range(lo, hi):
            if not (eq(B[i, p0], A[i, p1]) and eq(B[i, p1], A[i, p0])):
                ctx.violation(sig + "/effect", "row %d of the window: columns not exchanged (%r, %r) -> (%r, %r)" % (i, A[i, p0], A[i, p1], B[i, p0], B[i, p1]), **base)
                return False
        back = call(mon(name) if fresh else inj, name, ctx, base, out, lo, hi, fcols[0], fcols[1])
        if back is None:
            return False
        if not (cells(back) == A).all():
            ctx.violation(sig + "/involution", "applying the swap twice does not restore the input", **base)
            return False
    elif name == "FeatureShiftInjector":
        sf = float(rng.choice([0.5, -1.0, 2.0]))
        # alpha: omitted (documented default 0.001), zero (a pure mean shift), or some other value; given by position or keyword
        amode = str(rng.choice(["default", "zero", "int_zero", "value", "value"]))
        alpha = {"default": 0.001, "zero": 0.0, "int_zero": 0}.get(amode, float(rng.choice([0.001, 0.1, -0.25])))
        base.update(shift_factor=sf, alpha=alpha, alpha_given=amode)
        ctx.count("shift_alpha:" + amode)
        if amode == "default":
            out = call(inj, name, ctx, base, data, lo, hi, fcols[0], sf)
        elif rng.random() < 0.5:
            out = call(inj, name, ctx, base, data, lo, hi, fcols[0], sf, alpha=alpha)
        else:
            out = call(inj, name, ctx, base, data, lo, hi, fcols[0], sf, alpha)
        if out is None or not frame_cells(data, out, lo, hi, {p0}, ctx, sig, base):
            return False
        B = cells(out)
        if hi > lo:
            mean = float(np.mean([float(A[i, p0]) for i in range(lo, hi)]))
            for i in range(lo, hi):
                if not close(B[i, p0], float(A[i, p0]) + sf * (alpha + mean)):
                    ctx.violation(sig + "/effect", "row %d: %r -> %r, expected + shift_factor x (alpha + window mean) = %r" % (
                        i, A[i, p0], B[i, p0], float(A[i, p0]) + sf * (alpha + mean)), **base)
                    return False
    elif name == "LabelSwapInjector":
        c1, c2 = [cls[int(i)] for i in rng.choice(3, size=2, replace=False)]
        base.update(classes=[c1, c2])
        out = call(inj, name, ctx, base, data, lo, hi, tcol, c1, c2)
        if out is None or not frame_cells(data, out, lo, hi, {ti}, ctx, sig, base):
            return False
        B = cells(out)
        for i in range(lo, hi):
            exp = c2 if eq(A[i, ti], c1) else (c1 if eq(A[i, ti], c2) else A[i, ti])
            if not eq(B[i, ti], exp):
                ctx.violation(sig + "/effect", "row %d: label %r -> %r, expected %r (classes %r <-> %r)" % (i, A[i, ti], B[i, ti], exp, c1, c2), **base)
                return False
        back = call(mon(name) if fresh else inj, name, ctx, base, out, lo, hi, tcol, c1, c2)
        if back is None:
            return False
        if not all(eq(x, y) for x, y in zip(cells(back)[:, ti], A[:, ti])):
            ctx.violation(sig + "/involution", "swapping the classes twice does not restore the labels", **base)
            return False
    elif name == "LabelJoinInjector":
        c1, c2 = [cls[int(i)] for i in rng.choice(3, size=2, replace=False)]
        new = "zebra" if isinstance(cls[0], str) else 7.0
        base.update(classes=[c1, c2], new_class=new)
        out = call(inj, name, ctx, base, data, lo, hi, tcol, c1, c2, new)
        if out is None or not frame_cells(data, out, lo, hi, {ti}, ctx, sig, base):
            return False
        B = cells(out)
        for i in range(lo, hi):
            exp = new if (eq(A[i, ti], c1) or eq(A[i, ti], c2)) else A[i, ti]
            if not eq(B[i, ti], exp):
                ctx.violation(sig + "/effect", "row %d: label %r -> %r, expected %r" % (i, A[i, ti], B[i, ti], exp), **base)
                return False
    elif name in ("LabelProbabilityInjector", "LabelDirichletInjector"):
        present_all = sorted({x for x in A[:, ti]}, key=str)
        if name == "LabelProbabilityInjector":
            ks = [c for c in present_all if rng.random() < 0.7] or present_all[:1]
            ks = [ks[int(j)] for j in rng.permutation(len(ks))]
            raw = rng.dirichlet(np.ones(len(ks))) * float(rng.choice([1.0, 1.0, 0.6]))
            if rng.random() < 0.2:
                raw = np.zeros(len(ks))
                raw[0] = 1.0
            # keep the sum <= 1 in floating point (the injector rejects sums above 1)
            raw = np.floor(raw * 1e6) / 1e6
            arg = {k_: float(v) for k_, v in zip(ks, raw)}
            given = copy.deepcopy(arg)
            base.update(class_probabilities=dict(given))
            with rngtap.Tap() as tap:
                np.random.seed(rngtap.seed_for(case.get("seed_key", case["id"]), lo, hi))
                out = call(inj, name, ctx, base, data, lo, hi, tcol, arg)
            if out is None:
                return False
            if arg != given:
                ctx.violation(sig + "/argument_modified", "the caller's class_probabilities dict was modified: %r -> %r" % (given, arg), **base)
                return False
            requested = dict(given)
        else:
            order = [present_all[int(j)] for j in rng.permutation(len(present_all))]  # keys in arbitrary (not sorted) order
            alpha = {c: float(rng.choice([0.5, 1.0, 3.0, 8.0])) for c in order}
            given = copy.deepcopy(alpha)
            base.update(alpha=dict(given))
            with rngtap.Tap() as tap:
                np.random.seed(rngtap.seed_for(case.get("seed_key", case["id"]), lo, hi))
                out = call(inj, name, ctx, base, data, lo, hi, tcol, alpha)
            if out is None:
                return False
            if alpha != given:
                ctx.violation(sig + "/argument_modified", "the caller's alpha dict was modified", **base)
                return False
            dev = tap.since(0, "dirichlet")
            if len(dev) != 1 or [float(v) for v in dev[0][1][0]] != [given[c] for c in given]:
                ctx.violation(sig + "/dirichlet_draw", "expected exactly one Dirichlet draw with the given concentration parameters; log: %r" % (
                    [(e[1], e[2]) for e in dev],), **base)
                return False
            requested = {c: float(p) for c, p in zip(given, dev[0][3])}
        if not frame_cells(data, out, lo, hi, {0, 1, 2}, ctx, sig, base):
            return False
        ch = tap.since(0, "choice")
        if hi == lo:
            if ch:
                ctx.violation(sig + "/resampling_draw", "empty window, yet rows were drawn", **base)
                return False
            ctx.count("calls_checked")
            ctx.count("calls:%s:%s:%s" % (name, cont, wkind))
            return True
        if len(ch) != 1:
            ctx.violation(sig + "/resampling_draw", "expected exactly one resampling draw, the RNG log shows %d" % len(ch), **base)
            return False
        (_, a, k, res) = ch[0]
        pool = [int(v) for v in a[0]]
        size = a[1] if len(a) > 1 else k.get("size")
        repl = a[2] if len(a) > 2 else k.get("replace", True)
        p = a[3] if len(a) > 3 else k.get("p")
        ctx.count("resampling_logs_parsed")
        if sorted(pool) != list(range(lo, hi)) or size != hi - lo or not repl:
            ctx.violation(sig + "/resampling_pool", "rows were drawn from %r (size %r, replace %r); the window is [%d, %d)" % (pool, size, repl, lo, hi), **base)
            return False
        # probability mass per class of the window
        mass = {}
        for idx, pi in zip(pool, p):
            mass[A[idx, ti]] = mass.get(A[idx, ti], 0.0) + float(pi)
        undefined = [c for c in present_all if c not in requested]
        full = dict(requested)
        for c in undefined:
            full[c] = (1 - sum(requested.values())) / len(undefined)
        absent = sum(v for c, v in full.items() if c not in mass)
        slack = 1 - sum(full.values())  # probability not assigned to any class (all classes listed, sum < 1)
        cnt = {c: sum(1 for i in range(lo, hi) if eq(A[i, ti], c)) for c in mass}
        for c in mass:
            exp = full.get(c, 0.0) + (absent + slack) * cnt[c] / (hi - lo)
            if abs(mass[c] - exp) > 1e-9:
                ctx.violation(sig + "/class_probabilities", "class %r of the window is drawn with probability %r, requested %r (+ %r of the mass of classes absent "
                              "from the window)" % (c, mass[c], full.get(c, 0.0), exp - full.get(c, 0.0)), **base)
                return False
        B = cells(out)
        for j, src in enumerate(np.asarray(res).tolist()):
            if not all(eq(x, y) for x, y in zip(B[lo + j], A[int(src)])):
                ctx.violation(sig + "/effect", "row %d of the result is not the drawn input row %d" % (lo + j, src), **base)
                return False
    elif name == "BrownianNoiseInjector":
        x0 = float(rng.choice([0.0, 1.5, -2.0]))
        rs = int(rng.integers(0, 1000))
        base.update(x0=x0, random_state=rs)
        with rngtap.Tap() as tap:
            out = call(inj, name, ctx, base, data, lo, hi, fcols[0], x0, random_state=rs)
        if out is None or not frame_cells(data, out, lo, hi, {p0}, ctx, sig, base):
            return False
        B = cells(out)
        steps = hi - lo
        d = [float(B[i, p0]) - float(A[i, p0]) for i in range(lo, hi)]
        if steps:
            ys = [int(e[3]) for e in tap.since(0, "choice")]
            if len(ys) != steps - 1 or tap.seed_calls[-1:] != [((rs,), {})]:
                ctx.violation(sig + "/walk_draws", "expected the generator seeded with random_state and %d steps of +-1; log: %d steps, seed calls %r" % (
                    steps - 1, len(ys), tap.seed_calls), **base)
                return False
            w = x0
            for i in range(steps):
                if i > 0:
                    w = w + ys[i - 1] / np.sqrt(steps)
                    if abs(abs(d[i] - d[i - 1]) - 1 / np.sqrt(steps)) > 1e-9:
                        ctx.violation(sig + "/effect", "noise step %d has size %r, expected 1/sqrt(%d)" % (i, abs(d[i] - d[i - 1]), steps), **base)
                        return False
                if abs(d[i] - w) > 1e-9:
                    ctx.violation(sig + "/effect", "noise at window position %d is %r, the walk from x0=%r with the logged steps gives %r" % (i, d[i], x0, w), **base)
                    return False
        out2 = call(mon(name) if fresh else inj, name, ctx, base, data, lo, hi, fcols[0], x0, random_state=rs)
        if out2 is None:
            return False
        if not (cells(out2) == B).all():
            ctx.violation(sig + "/seeded_reproducibility", "two calls with the same random_state differ", **base)
            return False
    elif name == "FeatureCoverInjector":
        # whole-data injector (no window): hide the label column, n rows per group
        groups = sorted({x for x in A[:, ti]}, key=str)
        mn = min(sum(1 for x in A[:, ti] if eq(x, g)) for g in groups)
        per = int(rng.integers(1, mn + 1))
        ss = per * len(groups) + int(rng.integers(0, len(groups)))
        if rng.random() < 0.2:
            ss = int(rng.integers(0, len(groups)))  # a budget below one row per group (0 included): nothing can be sampled from any group
            ctx.count("cover_budget_below_one_row_per_group")
        rs = int(rng.integers(0, 1000))
        base.update(sample_size=ss, random_state=rs)
        out = call(inj, name, ctx, base, data, tcol, ss, random_state=rs)
        if out is None:
            return False
        B = cells(out)
        exp_rows = (ss // len(groups)) * len(groups)
        if B.shape != (exp_rows, A.shape[1] - 1):
            ctx.violation(sig + "/shape", "result shape %r, expected (%d groups x %d rows, %d columns)" % (B.shape, len(groups), ss // len(groups), A.shape[1] - 1), **base)
            return False
        if isinstance(data, pd.DataFrame) and list(out.columns) != [c for c in data.columns if c != tcol]:
            ctx.violation(sig + "/labels", "result columns %r" % list(out.columns), **base)
            return False
        # rows must come from the input (hidden column removed); with distinct feature rows the group of each is known
        feat = [tuple(r) for r in np.delete(A, ti, axis=1).tolist()]
        lookup = {}
        for r, g in zip(feat, A[:, ti]):
            lookup.setdefault(r, []).append(g)
        per_group = {}
        for r in [tuple(x) for x in B.tolist()]:
            if r not in lookup:
                ctx.violation(sig + "/effect", "result row %r is not a row of the input" % (r,), **base)
                return False
            if len(set(map(str, lookup[r]))) == 1:
                per_group[str(lookup[r][0])] = per_group.get(str(lookup[r][0]), 0) + 1
        if len(set(feat)) == len(feat) and any(per_group.get(str(g), 0) != ss // len(groups) for g in groups):
            ctx.violation(sig + "/effect", "rows per group %r, expected %d from each of %r" % (per_group, ss // len(groups), groups), **base)
            return False
        wkind = "full"
    ctx.count("calls_checked")
    ctx.count("contract_evaluations", _frame_post.evals - e0)
    ctx.count("calls:%s:%s:%s" % (name, cont, wkind))
    return True


def run_case(case, ctx):
    warnings.simplefilter("ignore")
    name, cont = case["inj"], case["cont"]
    rng = gen.rng_for(case["seed"], name, cont)
    if "literal" in case:
        lit = case["literal"]
        data = np.array(lit["data"], dtype=float) if cont == "ndarray" else pd.DataFrame(lit["data"], columns=["x", "z", "label"])
        cls = CLASSES_NUM if cont == "ndarray" or not isinstance(lit["data"][0][2], str) else CLASSES_STR
        tcol, fcols = (2, (0, 1)) if cont == "ndarray" else ("label", ("x", "z"))
        ctx.nontrivial = True
        check_one(name, cont, data, cls, tcol, fcols, lit["window"][0], lit["window"][1], rng, ctx, case)
        return
    nontriv = 0
    if case["kind"] == "reuse":
        # one injector object applied to a sequence of data sets of alternating container types
        inj = mon(name)
        order = [str(c) for c in rng.choice(["ndarray", "DataFrame"], size=int(rng.integers(3, 7)))]
        if len(set(order)) == 1:
            order[-1] = "ndarray" if order[0] == "DataFrame" else "DataFrame"
        for c in order:
            n = int(rng.integers(4, 30))
            data, cls, tcol, fcols = make_data(rng, n, c)
            lo = int(rng.integers(0, n + 1))
            hi = int(rng.integers(lo, n + 1))
            if name == "FeatureCoverInjector":
                lo, hi = 0, n
            if not check_one(name, c, data, cls, tcol, fcols, lo, hi, rng, ctx, case, inj=inj):
                return
            ctx.count("calls_on_reused_instance")
            if name in ("LabelProbabilityInjector", "LabelDirichletInjector", "LabelSwapInjector", "LabelJoinInjector") and rng.random() < 0.5:
                # the caller edits the labels of the very same data object in place (one class merged into another) and calls the same
                # injector on it again
                ti_ = col_index(data, tcol)
                if isinstance(data, pd.DataFrame):
                    data.iloc[:, ti_] = [cls[1] if eq(v, cls[0]) else v for v in data.iloc[:, ti_]]
                else:
                    data[data[:, ti_] == cls[0], ti_] = cls[1]
                lo = int(rng.integers(0, n + 1))
                hi = int(rng.integers(lo, n + 1))
                if not check_one(name, c, data, cls, tcol, fcols, lo, hi, rng, ctx, case, inj=inj):
                    return
                ctx.count("calls_on_the_same_data_object_edited_in_place")
        ctx.nontrivial = True
        ctx.sample = {"kind": "re-used injector instance", "injector": name, "container_sequence": order}
        ctx.digest = "reuse-%s-%s-%s" % (name, order, case["seed"])
        return
    if case["kind"] == "exh":
        n = int(rng.integers(3, 13))
        data, cls, tcol, fcols = make_data(rng, n, cont)
        windows = [(a, b) for a in range(n + 1) for b in range(a, n + 1)]
        if name == "FeatureCoverInjector":
            windows = [(0, n)] * 6
        for (lo, hi) in windows:
            if not check_one(name, cont, data, cls, tcol, fcols, lo, hi, rng, ctx, case):
                return
            nontriv += 1 if (hi > lo and (hi - lo) < n) else 0
        ctx.count("exhaustive_window_sets")
        ctx.sample = {"kind": "all windows", "injector": name, "container": cont, "rows": n, "windows": len(windows),
                      "first_rows": cells(data)[:3].tolist()}
    else:
        n = int(rng.integers(13, 120))
        data, cls, tcol, fcols = make_data(rng, n, cont)
        for _ in range(6):
            lo = int(rng.integers(0, n + 1))
            hi = int(rng.integers(lo, n + 1))
            if rng.random() < 0.1:
                hi = lo
            if rng.random() < 0.1:
                lo, hi = 0, n
            if not check_one(name, cont, data, cls, tcol, fcols, lo, hi, rng, ctx, case):
                return
            nontriv += 1 if (hi > lo and (hi - lo) < n) else 0
        ctx.sample = {"kind": "random windows", "injector": name, "container": cont, "rows": n}
    ctx.nontrivial = nontriv > 0 or name == "FeatureCoverInjector"
    ctx.digest = "%s-%s-%s-%s" % (name, cont, case["kind"], hash(cells(data).tobytes() if cont == "ndarray" else str(cells(data).tolist())))


def finalize(counters, tier, records):
    return {"exhaustive": True,
            "exhaustive_scope": "every window 0 <= from <= to <= n of each small data set (n <= 12) for every injector and container; "
                                "column / class / probability arguments and the larger data sets are sampled"}
