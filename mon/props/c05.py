"""C05 - DDM / EDDM / STEPD against their executable specifications, after every sample.

Workload: all 2^n outcome sequences (n = 12 quick, 16 thorough) under small thresholds that make
short sequences decisive, plus long random piecewise-stationary sequences over the parameter grid,
many epochs each."""
import itertools
import warnings

import numpy as np

from menelaus.concept_drift import DDM, EDDM, STEPD

from .. import gen
from ..models.base import Shadow, close
from ..models.concept import DDMModel, EDDMModel, STEPDModel

ID = "C05"
LEVEL = "exploration"
ANCHOR_FILES = ["menelaus/concept_drift/ddm.py", "menelaus/concept_drift/eddm.py", "menelaus/concept_drift/stepd.py"]
RULE = (
    "exhaustive part: one case per (detector, configuration, 4-bit prefix) running every binary outcome sequence of "
    "length n with that prefix through a fresh real detector and the executable specification in lock-step, comparing "
    "drift_state, retraining_recs (and STEPD's three accuracies) after every sample; random part: one case per long "
    "piecewise-Bernoulli sequence with parameters drawn from the documented ranges.  Non-trivial = the case contained "
    "at least one drift and the detector went on into a further epoch; distinct = distinct (detector, parameters, "
    "sequence digest)."
)
ASSUMPTIONS = [
    "DDM thresholds use the current deviation s_i and DDM/EDDM use the recurrences pinned by the repository's own "
    "tests (DESIGN.md 3.3); EDDM compares with <=; STEPD p-value from the normal survival function",
    "labels are presented as y_true=1, y_pred=1-error (encodings are C16's business)",
    "decisions within 1e-9 of a threshold are adopted from the implementation (counted as near_ties_adopted)",
]

CLS = {"DDM": (DDM, DDMModel), "EDDM": (EDDM, EDDMModel), "STEPD": (STEPD, STEPDModel)}

EXH_CFG = {
    "quick": {
        "DDM": [(1, 2, 3), (3, 1.1, 1.5), (2, 1.0, 2.0), (4, 0.5, 1.0), (3, 3.0, 2.0)],
        "EDDM": [(1, 0.95, 0.9), (2, 1.0, 0.8), (3, 0.9, 0.5), (2, 0.75, 0.75)],
        "STEPD": [(1, 0.2, 0.05), (2, 0.3, 0.1), (3, 0.05, 0.003), (2, 0.5, 0.5), (2, 0.95, 0.9), (1, 0.6, 0.3), (2, 0.58, 0.53)],
    },
}
EXH_CFG["thorough"] = {
    "DDM": EXH_CFG["quick"]["DDM"] + [(1, 1.0, 1.0), (5, 2, 3), (2, 0.0, 3)],
    "EDDM": EXH_CFG["quick"]["EDDM"] + [(1, 1.0, 1.0), (4, 0.95, 0.9), (2, 0.5, 0.25)],
    "STEPD": EXH_CFG["quick"]["STEPD"] + [(1, 0.5, 0.5), (4, 0.2, 0.1), (3, 0.3, 0.3)],
}


def cases(tier, seed):
    n = 14 if tier == "quick" else 17
    pb = 4
    out = []
    for det, cfgs in EXH_CFG[tier].items():
        for ci, cfg in enumerate(cfgs):
            for pref in range(2 ** pb):
                out.append({"id": "exh/%s/%d/p%d" % (det, ci, pref), "kind": "exh", "det": det, "cfg": list(cfg),
                            "n": n, "prefix": pref, "pb": pb, "cost": 2 ** (n - pb) * n / 1000.0})
    nr = 150 if tier == "quick" else 1500
    for det in CLS:
        for i in range(nr):
            out.append({"id": "rand/%s/%d" % (det, i), "kind": "rand", "det": det, "seed": [seed, 5, i],
                        "cost": 30})
    return out


def targets(tier):
    k = 1 if tier == "quick" else 8
    return {"steps": 300000, "drifts:DDM": 500 * k, "drifts:EDDM": 500 * k, "drifts:STEPD": 500 * k,
            "warn_to_drift:DDM": 200, "warn_to_drift:EDDM": 200, "warn_to_drift:STEPD": 100,
            "histories_3plus_epochs": 300, "exact_ties_decisive": 1000, "exhaustive_sequences": 13 * 16384}


def norm_recs(r):
    return [None if v is None else int(v) for v in list(r)]


def rand_cfg(det, rng):
    if det == "DDM":
        nt = int(rng.choice([1, 2, 3, 5, 10, 30]))
        ws = float(rng.choice([0.5, 1.0, 1.5, 2.0]))
        ds = ws + float(rng.choice([0.0, 0.5, 1.0, 2.0]))
        if rng.random() < 0.15:
            ws, ds = ds + 0.5, ws  # thresholds in the other order (accepted): the drift level is then reached first, and drift takes precedence
        if rng.random() < 0.1:
            nt = nt + float(rng.choice([0.5, 0.2]))  # "at least n_threshold samples" for a value that is not a whole number
        return (nt, ws, ds)
    if det == "EDDM":
        nt = int(rng.choice([1, 2, 3, 5, 10, 30]))
        wt = float(rng.choice([1.0, 0.98, 0.95, 0.9, 0.8]))
        dt = wt - float(rng.choice([0.0, 0.05, 0.1, 0.3]))
        if rng.random() < 0.15:
            wt, dt = dt - 0.05, wt
        if rng.random() < 0.1:
            nt = nt + 0.5
        return (nt, wt, dt)
    w = int(rng.choice([1, 2, 3, 5, 10, 30]))
    aw = float(rng.choice([0.7, 0.6, 0.5, 0.3, 0.1, 0.05]))
    ad = aw * float(rng.choice([1.0, 0.5, 0.1, 0.06]))
    if rng.random() < 0.15:
        aw, ad = ad, min(0.9, aw * 1.5)
    return (w, aw, ad)


def run_sequence(det, cfg, bits, ctx, label, resets=(), numpy_params=False):
    """returns (ok, drifts).  resets: positions before which the user calls reset() explicitly (a new epoch starts there)"""
    cls, mcls = CLS[det]
    if numpy_params:
        try:
            d = cls(*[np.int64(v) if isinstance(v, int) else (np.float64(v) if isinstance(v, float) else v) for v in cfg])
            ctx.count("numpy_typed_parameters")
        except (ValueError, TypeError):  # a constructor may insist on plain Python types
            ctx.count("numpy_typed_parameters_refused_by_constructor")
            d = cls(*cfg)
    else:
        d = cls(*cfg)
    sh = Shadow(lambda: mcls(*cfg), lambda m: m.state)
    drifts = 0
    prev_state = None
    for i, e in enumerate(bits):
        if i in resets:
            d.reset()
            ctx.count("explicit_resets")
            e = ("reset", e)
        d.update(1, 1 - (e[1] if isinstance(e, tuple) else e))
        st = d.drift_state
        ok, adopted = sh.step((e,), st)
        if isinstance(e, tuple):
            e = e[1]
        m = sh.model
        ctx.count("steps")
        if adopted:
            ctx.count("near_ties_adopted")
        nz = sum(1 for (_, _, mg) in m.cmp.log if mg == 0)
        if nz:
            ctx.count("exact_ties_decisive", nz)
        if not ok:
            ctx.violation("C05/%s/state" % det,
                          "%s%s step %d of %s: implementation reports %r, specification %r" % (det, tuple(cfg), i, label, st, m.state),
                          detector=det, cfg=cfg, bits=list(bits[: i + 1]), step=i, got=st, expected=m.state,
                          margins=[mg for (_, _, mg) in m.cmp.log])
            return False, drifts
        recs = norm_recs(d.retraining_recs)
        if recs != m.recs:
            ctx.violation("C05/%s/retraining_recs" % det,
                          "%s%s step %d of %s: retraining_recs %r, specification %r (state %r)" % (det, tuple(cfg), i, label, recs, m.recs, st),
                          detector=det, cfg=cfg, bits=list(bits[: i + 1]), step=i, got=recs, expected=m.recs)
            return False, drifts
        # the accuracies are read after every sample, or (a third of the histories) only now and then - a reader must not be what
        # keeps them fresh
        if det == "STEPD" and (len(bits) % 3 != 1 or i % 11 == 7):
            acc = (d.recent_accuracy(), d.past_accuracy(), d.overall_accuracy())
            exp = (m.recent, m.past, m.overall)
            if not all(close(a, b) for a, b in zip(acc, exp)):
                ctx.violation("C05/STEPD/accuracies",
                              "STEPD%s step %d: accuracies (recent, past, overall) %r, specification %r" % (tuple(cfg), i, acc, exp),
                              detector=det, cfg=cfg, bits=list(bits[: i + 1]), step=i)
                return False, drifts
        if st == "drift":
            drifts += 1
            ctx.count("drifts:" + det)
            if prev_state == "warning":
                ctx.count("warn_to_drift:" + det)
        elif st == "warning":
            ctx.count("warnings:" + det)
        prev_state = st
    return True, drifts


def run_case(case, ctx):
    warnings.simplefilter("ignore")
    det = case["det"]
    if case["kind"] == "exh":
        n, pb, pref = case["n"], case["pb"], case["prefix"]
        cfg = tuple(case["cfg"])
        head = tuple((pref >> (pb - 1 - j)) & 1 for j in range(pb))
        nd = 0
        multi = 0
        for tail in itertools.product((0, 1), repeat=n - pb):
            bits = head + tail
            ok, drifts = run_sequence(det, cfg, bits, ctx, "sequence %s" % "".join(map(str, bits)))
            ctx.count("exhaustive_sequences")
            nd += drifts
            if drifts >= 2:
                multi += 1
                ctx.count("histories_3plus_epochs" if drifts >= 3 else "histories_2_epochs")
            if not ok and len(ctx.violations) >= 3:
                break
        ctx.nontrivial = nd > 0
        ctx.sample = {"kind": "exhaustive", "detector": det, "params": cfg, "prefix": "".join(map(str, head)),
                      "sequences": 2 ** (n - pb), "drifts_seen": nd, "sequences_with_2plus_drifts": multi}
        return
    rng = gen.rng_for(case["seed"], det)
    cfg = rand_cfg(det, rng)
    n = int(rng.integers(200, 1500))
    bits = gen.bernoulli_piecewise(rng, n, seg=(2, 150))
    if rng.random() < 0.15:
        # epochs that end at the very first moment a decision is possible: a full window of correct predictions followed by a full
        # window of wrong ones, again and again (with a few stray samples in between)
        w_ = int(cfg[0])
        bits = []
        while len(bits) < n:
            bits += [0] * w_ + [1] * w_ + [int(b) for b in rng.integers(0, 2, size=int(rng.integers(0, 3)))]
        bits = bits[:n]
        ctx.count("streams_of_full_windows_right_then_wrong")
    resets = set(int(v) for v in rng.integers(1, n, size=int(rng.integers(0, 4)))) if rng.random() < 0.3 else set()
    ok, drifts = run_sequence(det, cfg, bits, ctx, "random sequence" + (" with explicit reset() before %s" % sorted(resets) if resets else ""), resets,
                                numpy_params=(case["seed"][-1] % 3 == 1))
    ctx.count("random_sequences")
    if drifts >= 3:
        ctx.count("histories_3plus_epochs")
    ctx.nontrivial = drifts >= 1
    ctx.digest = "%s-%s-%s" % (det, cfg, hash(tuple(bits)))
    ctx.sample = {"kind": "random", "detector": det, "params": cfg, "length": n, "drifts": drifts,
                  "first_40_errors": "".join(map(str, bits[:40]))}


def finalize(counters, tier, records):
    n = 14 if tier == "quick" else 17
    return {"exhaustive": True,
            "exhaustive_scope": "all 2^%d outcome sequences x the listed small-threshold configurations of each detector; "
                                "the random long sequences are sampled" % n}
