"""C08 - kdq-tree partitioner: structure, conservation of counts, routing, distributions, plot frame.

Oracles: (1) icontract postconditions on build / fill that walk the public tree (binary, axis cycling,
no small node split, parent = sum of children for every id, leaf order, totals); (2) a point-wise
router over the public splits (models/kdq.py): every node's count for every id must equal the number of points routed into its cell;
(3) own corrected distributions / KL / two-cell Kulldorff statistic."""
import math
import warnings

import icontract
import numpy as np

from menelaus.partitioners import KDQTreePartitioner

from .. import gen
from ..models import kdq as K
from ..models.base import close

ID = "C08"
LEVEL = "exploration"
ANCHOR_FILES = ["menelaus/partitioners/KDQTreePartitioner.py"]
RULE = (
    "one case per generated point set (continuous, lattice, duplicated rows, constant columns, adjacent doubles, magnitudes "
    "1e-150..1e150; 1-5 dimensions) x count_ubound x cutpoint_proportion_lbound, followed by a random sequence of 1-8 fill "
    "calls over up to four tree ids (incl. 'build') with and without reset (sub-samples, shifted, far-outside and empty data); "
    "after build and after every fill the public tree is walked by icontract postconditions and compared node by node with an "
    "independent builder / point-wise router; leaf_counts, kl_distance and to_plotly_dataframe are recomputed.  Non-trivial = "
    "the built tree has at least 4 leaves and at least 2 fills were checked; distinct = digest of (data, parameters, fill sequence)."
)
ASSUMPTIONS = [
    "finite numeric data whose ranges do not overflow a double",
    "the built tree is judged against the build data by the property's own clauses (binary, axis cycling, midpoint of the held points, "
    "no node of <= count_ubound points split, counts = points held); *where* splitting stops beyond that is not part of the property - "
    "the independent builder (documented leaf rule) is consulted for information only (counter trees_identical_to_reference_builder)",
]


class PostBroken(Exception):
    pass


def is_leaf(nd):
    return nd.axis is None


def walk(node, depth=0, out=None, parent=None):
    if out is None:
        out = []
    out.append((node, depth, parent))
    if node is not None and not is_leaf(node):
        walk(node.left, depth + 1, out, node)
        walk(node.right, depth + 1, out, node)
    return out


def tree_invariants(p, dims=None):
    """returns None or a (kind, message) describing the first broken structural invariant"""
    if p.node is None:
        return None
    leaves = []
    for nd, depth, par in walk(p.node):
        if nd is None:
            return ("missing_child", "internal node at depth %d has a missing child: its cell is not partitioned" % (depth - 1))
        c = nd.num_samples_in_compared_subtrees
        if is_leaf(nd):
            if nd.left is not None or nd.right is not None:
                return ("leaf_with_children", "leaf with children")
            leaves.append(nd)
            continue
        if nd.left is None or nd.right is None:
            return ("missing_child", "internal node at depth %d (count %s) has a missing child: points on that side of the split are lost" % (depth, c))
        if dims is not None and nd.axis != depth % dims:
            return ("axis", "node at depth %d splits axis %r, expected %d" % (depth, nd.axis, depth % dims))
        if c.get("build", 0) <= p.count_ubound and "build" in c and getattr(p, "_verif_build_only", True):
            return ("small_node_split", "node holding %r <= count_ubound=%r points was split" % (c.get("build"), p.count_ubound))
        for tid, v in c.items():
            lv = nd.left.num_samples_in_compared_subtrees.get(tid)
            rv = nd.right.num_samples_in_compared_subtrees.get(tid)
            if lv is None or rv is None or lv + rv != v:
                return ("conservation", "node count %r for id %r is not the sum of its children's counts %r + %r" % (v, tid, lv, rv))
    if len(leaves) != len(p.leaves) or any(a is not b for a, b in zip(leaves, p.leaves)):
        return ("leaf_order", "partitioner.leaves is not the left-to-right sequence of the tree's leaves")
    return None


def _post_build(self, data, result):
    self._verif_evals = getattr(self, "_verif_evals", 0) + 1
    bad = tree_invariants(self, data.shape[1] if data.ndim == 2 else None)
    if bad is None and self.node is not None:
        tot = sum(l.num_samples_in_compared_subtrees["build"] for l in self.leaves)
        if tot != data.shape[0] or self.node.num_samples_in_compared_subtrees["build"] != data.shape[0]:
            bad = ("total", "leaf counts add up to %d, %d points were built" % (tot, data.shape[0]))
    self._verif_last = bad
    return bad is None


def _post_fill(self, data, tree_id, result):
    self._verif_evals = getattr(self, "_verif_evals", 0) + 1
    self._verif_build_only = False
    bad = tree_invariants(self, data.shape[1] if data.ndim == 2 else None)
    self._verif_last = bad
    return bad is None


_Mon = None


def monitored_class():
    global _Mon
    if _Mon is None:
        b = icontract.ensure(_post_build, error=PostBroken)(KDQTreePartitioner.build)
        f = icontract.ensure(_post_fill, error=PostBroken)(KDQTreePartitioner.fill)
        _Mon = type("KDQTreePartitionerMon", (KDQTreePartitioner,), {"build": b, "fill": f})
    return _Mon


def cases(tier, seed):
    n = 1200 if tier == "quick" else 30000
    out = [{"id": "pts/%d" % i, "seed": [seed, 8, i]} for i in range(n)]
    out += [{"id": "edge/%d" % i, "edge": True, "seed": [seed, 88, i]} for i in range(n // 10)]
    return out


def targets(tier):
    k = 3 if tier == "quick" else 30
    return {"trees_built": 300 * k, "trees_8plus_leaves": 80 * k, "fills_checked": 1200 * k, "contract_evaluations": 1200 * k,
            "nodes_compared": 4500 * k, "plot_frames_checked": 300 * k, "kl_checked": 600 * k, "family:adjacent": 20 * k,
            "family:lattice": 30 * k, "family:duplicates": 30 * k, "fills_with_reset": 150 * k, "fills_accumulating": 300 * k, "edge_cases_checked": 25 * k}


def gen_points(rng):
    fam = str(rng.choice(["continuous", "continuous", "lattice", "duplicates", "constcol", "adjacent", "magnitude", "decimal"]))
    d = int(rng.integers(1, 6))
    n = int(rng.integers(2, 160))
    if fam == "continuous":
        X = rng.normal(0, 1, size=(n, d)) * rng.choice([1, 10, 100], size=d)
    elif fam == "decimal":
        # readings rounded to one or two decimals, centred near zero: midpoints and points are inexact in binary and often coincide
        X = np.round(rng.normal(0, float(rng.choice([0.5, 2.0, 20.0])), size=(n, d)), int(rng.choice([1, 1, 2])))
    elif fam == "lattice":
        X = rng.integers(0, int(rng.choice([2, 4, 10, 30])), size=(n, d)).astype(float)
    elif fam == "duplicates":
        base = rng.normal(0, 1, size=(max(2, n // 4), d))
        X = base[rng.integers(0, len(base), size=n)]
    elif fam == "constcol":
        X = rng.normal(0, 1, size=(n, d))
        X[:, int(rng.integers(0, d))] = 3.25
    elif fam == "adjacent":
        X = rng.normal(0, 1, size=(n, d)) * 50
        a = float(rng.choice([1.0, 0.1, 3.0, 1e10, -2.5, 1e-5]))
        j = int(rng.integers(0, d))
        vals = [a, float(np.nextafter(a, np.inf))]
        if rng.random() < 0.4:
            vals.append(float(np.nextafter(vals[1], np.inf)))
        X[:, j] = rng.choice(vals, size=n)
    else:
        X = rng.normal(0, 1, size=(n, d)) * float(rng.choice([1e-150, 1e-20, 1e20, 1e150]))
    return fam, np.ascontiguousarray(X, dtype=float)


def convert(inode, leaves, depth=0):
    """the implementation's public tree as a plain dict tree (same keys as models/kdq.py), or None when a child is missing"""
    if inode is None:
        return None
    nd = {"count": inode.num_samples_in_compared_subtrees.get("build"), "depth": depth, "impl": inode}
    if is_leaf(inode):
        nd.update(leaf=True, leaf_no=len(leaves))
        leaves.append(nd)
        return nd
    left = convert(inode.left, leaves, depth + 1)
    right = convert(inode.right, leaves, depth + 1)
    if left is None or right is None:
        return None
    nd.update(leaf=False, axis=inode.axis, mid=float(inode.midpoint_at_axis), left=left, right=right)
    return nd


def same_shape(a, b):
    if a["leaf"] != b["leaf"]:
        return False
    if a["leaf"]:
        return True
    return a["axis"] == b["axis"] and a["mid"] == b["mid"] and same_shape(a["left"], b["left"]) and same_shape(a["right"], b["right"])


def compare_trees(inode, mnode_unused, ctx, base, depth=0, X=None, cub=None, prop=None):
    """Property-level verification of the built tree against the build data (the reference builder is consulted only for information:
    *where* a tree stops splitting beyond the stated rules is not part of the property).  Returns (root, leaves, nodes) or None."""
    leaves = []
    root = convert(inode, leaves)
    if root is None:
        ctx.violation("C08/build/missing_child", "the built tree has an internal node with a missing child: its cell is not partitioned", **base)
        return None
    d = X.shape[1]
    held = {id(nd): [] for nd in K.nodes_preorder(root)}
    for i, row in enumerate(X):
        for nd in K.route(root, row)[1]:
            held[id(nd)].append(i)
    n_nodes = 0
    for nd in K.nodes_preorder(root):
        n_nodes += 1
        pts = held[id(nd)]
        if nd["count"] != len(pts):
            ctx.violation("C08/build/count", "depth %d: node count %r, the node's cell holds %d of the built points" % (nd["depth"], nd["count"], len(pts)), **base)
            return None
        if nd["leaf"]:
            continue
        if nd["axis"] != nd["depth"] % d:
            ctx.violation("C08/build/axis", "depth %d: split on axis %r, the axes must cycle with depth (expected %d)" % (nd["depth"], nd["axis"], nd["depth"] % d), **base)
            return None
        if len(pts) <= cub:
            ctx.violation("C08/build/small_node_split", "a node holding %d <= count_ubound=%d points was split" % (len(pts), cub), **base)
            return None
        col = [float(X[i, nd["axis"]]) for i in pts]
        lo, hi = min(col), max(col)
        mid = lo + (hi - lo) / 2
        # single-precision build data: the midpoint is then a single-precision number (rounding, not a different rule)
        slack = 2.0 ** -22 * max(abs(lo), abs(hi)) if base.get("build_dtype") == "float32" else 0.0
        if abs(nd["mid"] - mid) > slack:
            ctx.violation("C08/build/midpoint", "depth %d axis %d: split at %r, the midpoint of the range of the node's points is %r" % (nd["depth"], nd["axis"], nd["mid"], mid), **base)
            return None
    ref_root, _ = K.build(X, cub, prop)
    ctx.count("trees_identical_to_reference_builder" if same_shape(root, ref_root) else "trees_with_other_stopping_than_reference_builder")
    return root, leaves, n_nodes


def pair_nodes(inode, mnode, out):
    for nd in K.nodes_preorder(mnode):
        out.append((nd["impl"], nd))
    return out


def run_edge(case, ctx):
    """API edges of the partitioner: reset(value, id), depth-limited / named plot frames, 1-d and empty inputs, queries before build"""
    rng = gen.rng_for(case["seed"])
    fam, X = gen_points(rng)
    n, d = X.shape
    cub = int(rng.choice([1, 2, 3, 5]))
    P = monitored_class()(count_ubound=cub, cutpoint_proportion_lbound=0.0)
    base = dict(family=fam, shape=[n, d], count_ubound=cub)
    # before build: nothing to report, fill is a no-op
    if P.leaf_counts("build") is not None or P.kl_distance("build", "x") is not None or P.fill(X.copy(), "x") is not None:
        ctx.violation("C08/edge/before_build", "an unbuilt partitioner reports leaf counts / a distance, or fills", **base)
        return
    if P.build(X[:, 0].copy()) is not None or P.node is not None or P.leaves:
        ctx.violation("C08/edge/one_dimensional_input", "build on 1-d data must not create a tree", **base)
        return
    P.build(X.copy())
    r = compare_trees(P.node, None, ctx, base, X=X, cub=cub, prop=0.0)
    if r is None:
        return
    mroot, mleaves, _ = r
    before = [l.num_samples_in_compared_subtrees.get("build") for l in P.leaves]
    if P.fill(X[:, 0].copy(), "flat") is not None or any("flat" in nd.num_samples_in_compared_subtrees for nd, _, _ in walk(P.node)):
        ctx.violation("C08/edge/one_dimensional_fill", "fill with 1-d data must leave the tree untouched", **base)
        return
    P.fill(X.copy(), "t")
    read_before = (P.leaf_counts("t"), P.kl_distance("build", "t"))  # queries before the reset must not be remembered
    v = int(rng.integers(0, 9))
    P.reset(value=v, tree_id="t")
    lc = P.leaf_counts("t")
    if list(lc) != [v] * len(P.leaves) or not close(P.kl_distance("build", "t"), K.kl_counts(before, [v] * len(before)), 1e-9, 1e-12):
        ctx.violation("C08/edge/reset_queries", "after reset(value=%d, tree_id='t') leaf_counts('t') is %r and kl_distance does not follow the tree's counts" % (v, list(lc)[:8]), **base)
        return
    pairs = pair_nodes(P.node, mroot, [])
    if any(nd.num_samples_in_compared_subtrees.get("t") != v for nd, _ in pairs) or [l.num_samples_in_compared_subtrees.get("build") for l in P.leaves] != before:
        ctx.violation("C08/edge/reset", "reset(value=%d, tree_id='t') must set every node's count for 't' to %d and leave other ids alone" % (v, v), **base)
        return
    P.fill(X.copy(), "t", reset=True)
    names = ["feat%d" % j for j in range(d)]
    full = P.to_plotly_dataframe("build", "t", input_cols=names)
    maxd = int(full["depth"].max())
    if maxd >= 1:
        md = int(rng.integers(1, maxd + 1))
        lim = P.to_plotly_dataframe("build", "t", max_depth=md, input_cols=names)
        exp = full[full.depth <= md]
        if len(lim) != len(exp) or lim["idx"].tolist() != exp["idx"].tolist() or int(lim["depth"].max()) > md:
            ctx.violation("C08/edge/max_depth", "to_plotly_dataframe(max_depth=%d) lists %d nodes, the tree has %d nodes up to that depth" % (md, len(lim), len(exp)), **base)
            return
    # node names carry the feature name of the parent's split
    byid = {id(nd): (nd, par) for nd, _, par in walk(P.node)}
    for _, r in full.iterrows():
        nd, par = byid[int(r["idx"])]
        if par is not None and not str(r["name"]).startswith(names[par.axis] + " "):
            ctx.violation("C08/edge/plot_names", "node name %r does not name the split feature %r of its parent" % (r["name"], names[par.axis]), **base)
            return
    only_ref = P.to_plotly_dataframe("build", None)
    if "count_diff" in only_ref.columns or "kss" in only_ref.columns or len(only_ref) != len(pairs):
        ctx.violation("C08/edge/plot_reference_only", "to_plotly_dataframe without a test id must list every node with reference counts only", **base)
        return
    ctx.count("edge_cases_checked")
    ctx.nontrivial = len(mleaves) >= 4
    ctx.sample = {"kind": "edge", "family": fam, "shape": [n, d], "leaves": len(mleaves)}
    ctx.digest = "edge-%s" % hash(X.tobytes())


def run_case(case, ctx):
    warnings.simplefilter("ignore")
    if case.get("edge"):
        return run_edge(case, ctx)
    if "literal" in case:
        lit = case["literal"]
        fam = "literal"
        X = np.array(lit["data"], dtype=float)
        cub, prop = lit["count_ubound"], lit["prop"]
        fills = [(np.array(f["data"], dtype=float).reshape(-1, X.shape[1]), f["id"], f["reset"]) for f in lit["fills"]]
    else:
        rng = gen.rng_for(case["seed"])
        fam, X = gen_points(rng)
        n, d = X.shape
        cub = int(rng.choice([1, 2, 3, 5, 10, 25, n]))
        prop = float(rng.choice([0.0, 2e-10, 0.25, 1.0]))
        fills = []
        for _ in range(int(rng.integers(1, 9))):
            kind = str(rng.choice(["sub", "same", "shift", "far", "empty", "jitter"]))
            if kind == "sub":
                Y = X[rng.integers(0, n, size=int(rng.integers(1, n + 1)))]
            elif kind == "same":
                Y = X.copy()
            elif kind == "shift":
                Y = X + rng.normal(0, 1, size=d) * X.std(axis=0)
            elif kind == "far":
                Y = X[: max(1, n // 3)] * 1e3 + 1e6 * float(rng.choice([-1, 1]))
            elif kind == "empty":
                Y = np.empty((0, d))
            else:
                Y = X[rng.integers(0, n, size=n)] + rng.normal(0, 0.3, size=(n, d)) * (X.std(axis=0) + 1e-12)
            fills.append((np.ascontiguousarray(Y, dtype=float), str(rng.choice(["a", "a", "b", "c", "build"])), bool(rng.random() < 0.3)))
        # the build data may arrive with a narrower dtype than later batches (whole-number records, single-precision
        # sensors); X keeps the same values as float64 for the oracle
        r = rng.random()
        amax = float(np.abs(X).max()) if X.size else 0.0
        if amax * 10 >= 2.0 ** 52 or (amax and amax < 1e-30):
            r = 1.0  # outside what the narrow dtypes can hold: not a dtype question
        if r < 0.12:
            bdt = "int64"
            X = np.round(X * float(rng.choice([1, 3, 10])))
        elif r < 0.2:
            bdt = "float32"
            X = X.astype(np.float32).astype(float)
        elif r < 0.26:
            bdt = "uint8"
            lo_, hi_ = X.min(axis=0), X.max(axis=0)
            X = np.round((X - lo_) / (hi_ - lo_ + 1e-12) * 255)
        if bdt == "float32" if r < 0.26 else False:
            fills = [(X.copy(), "upcast", True)] + fills
        if r < 0.26:
            fills = [(Y if len(Y) == 0 or k_ % 2 else np.ascontiguousarray(X[rng.integers(0, n, size=len(Y))] + rng.normal(0, 0.7, size=(len(Y), d))), t_, r_)
                     for k_, (Y, t_, r_) in enumerate(fills)]
        # some batches arrive in single precision (the oracle works with the exact values they hold)
        f32 = {k_ for k_ in range(len(fills)) if rng.random() < 0.15 and fills[k_][0].size and float(np.abs(fills[k_][0]).max()) < 1e30}
        fills = [((Y.astype(np.float32).astype(float), t_, r_) if k_ in f32 else (Y, t_, r_)) for k_, (Y, t_, r_) in enumerate(fills)]
    f32 = locals().get("f32") or set(case.get("literal", {}).get("float32_fills", []))
    bdt = locals().get("bdt") or case.get("literal", {}).get("build_dtype")
    ctx.count("family:" + fam)
    if bdt:
        ctx.count("build_dtype:" + bdt)
    n, d = X.shape
    base = dict(data=X.tolist() if X.size <= 400 else "omitted(%dx%d)" % X.shape, count_ubound=cub, prop=prop, family=fam, build_dtype=bdt)
    P = monitored_class()(count_ubound=cub, cutpoint_proportion_lbound=prop)
    try:
        P.build(X.astype(bdt) if bdt else X.copy())
    except PostBroken:
        kind, msg = P._verif_last
        ctx.violation("C08/build/" + kind, "after build: " + msg, **base)
        return
    ctx.count("contract_evaluations", getattr(P, "_verif_evals", 0))
    ctx.count("trees_built")
    r = compare_trees(P.node, None, ctx, base, X=X, cub=cub, prop=prop)
    if r is None:
        return
    mroot, mleaves, nn = r
    ctx.count("nodes_compared", nn)
    if len(mleaves) >= 8:
        ctx.count("trees_8plus_leaves")
    ctx.cmax("leaves", len(mleaves))
    pairs = pair_nodes(P.node, mroot, [])
    # routing of the build data itself must reproduce the build counts (partition property)
    expected = {"build": K.fill_counts(mroot, X)}
    for inode, mnode in pairs:
        if expected["build"][id(mnode)] != mnode["count"]:
            ctx.violation("C08/route/build_points", "point-wise routing of the build data gives %d points in a node that was built with %d" % (
                expected["build"][id(mnode)], mnode["count"]), **base)
            return
    sizes = {"build": n}
    nfill = 0
    applied = []
    bystander = "literal" not in case and (case.get("seed") or [0])[-1] % 3 == 0
    if bystander:
        ctx.count("cases_with_a_second_partitioner_alive")
    for fi_, (Y, tid, reset) in enumerate(fills):
        if fi_ in f32:
            ctx.count("fills_in_single_precision")
        if bystander:
            # another partitioner object used in between (its own data, the same ids): the two must not share anything
            other = KDQTreePartitioner(count_ubound=max(1, cub // 2), cutpoint_proportion_lbound=prop)
            other.build(X[::-1] * 3.0 + 1.0)
            other.fill(X * 0.5, tid, reset=True)
        applied.append({"data": Y.tolist() if Y.size <= 300 else "omitted", "id": tid, "reset": reset})
        fbase = dict(base, fills=applied, float32_fills=sorted(k_ for k_ in f32 if k_ <= fi_))
        evals0 = getattr(P, "_verif_evals", 0)
        try:
            P.fill(Y.astype(np.float32) if fi_ in f32 else Y.copy(), tid, reset=reset)
        except PostBroken:
            kind, msg = P._verif_last
            ctx.violation("C08/fill/" + kind, "after fill(id=%r, reset=%r): %s" % (tid, reset, msg), **fbase)
            return
        ctx.count("contract_evaluations", getattr(P, "_verif_evals", 0) - evals0)
        cnt = K.fill_counts(mroot, Y)
        if reset or tid not in expected:
            expected[tid] = cnt
            sizes[tid] = len(Y)
        else:
            expected[tid] = {k: expected[tid][k] + cnt[k] for k in cnt}
            sizes[tid] += len(Y)
        ctx.count("fills_with_reset" if reset else "fills_accumulating")
        for inode, mnode in pairs:
            got = inode.num_samples_in_compared_subtrees.get(tid)
            if got != expected[tid][id(mnode)]:
                ctx.violation("C08/fill/count",
                              "after fill #%d (id=%r, reset=%r, %d points): node at depth %d (%s) has count %r for that id, routing the "
                              "points one by one gives %d" % (nfill, tid, reset, len(Y), mnode["depth"], "leaf" if mnode["leaf"] else "internal",
                                                              got, expected[tid][id(mnode)]), **fbase)
                return
        lc = P.leaf_counts(tid)
        exp_lc = [expected[tid][id(l)] for l in mleaves]
        if list(lc) != exp_lc or sum(lc) != sizes[tid]:
            ctx.violation("C08/fill/leaf_counts", "leaf_counts(%r) = %r, expected %r (sum must be %d)" % (tid, list(lc), exp_lc, sizes[tid]), **fbase)
            return
        nfill += 1
        ctx.count("fills_checked")
        # distributions and KL
        for other in list(expected):
            c1, c2 = P.leaf_counts(other), P.leaf_counts(tid)
            dist = KDQTreePartitioner._distn_from_counts(c1)
            own = K.distn(c1)
            if not (abs(math.fsum(dist) - 1) < 1e-12 and all(close(a, b, 1e-12) for a, b in zip(dist, own))):
                ctx.violation("C08/distribution", "leaf distribution of %r is not (c+0.5)/(n+L/2): %r vs %r" % (other, list(dist), own), **fbase)
                return
            klv = P.kl_distance(other, tid)
            exp = K.kl_counts(c1, c2)
            ctx.count("kl_checked")
            if not close(klv, exp, rtol=1e-9, atol=1e-12) or klv < -1e-15 or (list(c1) == list(c2) and abs(klv) > 1e-15):
                ctx.violation("C08/kl_distance", "kl_distance(%r, %r) = %r, own corrected KL = %r (counts %r / %r)" % (other, tid, klv, exp, list(c1), list(c2)), **fbase)
                return
        # plot frame
        ref_id = "build"
        df = P.to_plotly_dataframe(tree_id1=ref_id, tree_id2=tid)
        if not check_plot(df, P, pairs, expected, ref_id, tid, ctx, fbase):
            return
        ctx.count("plot_frames_checked")
        # the same listing cut off at a depth: the nodes down to that depth, each row exactly as in the full listing
        deepest = max(int(v) for v in df["depth"])
        if deepest >= 1:
            md = 1 + (nfill + n) % deepest
            cut = P.to_plotly_dataframe(tree_id1=ref_id, tree_id2=tid, max_depth=md)
            full = {int(r["idx"]): r for _, r in df.iterrows()}
            want = {i_ for i_, r in full.items() if int(r["depth"]) <= md}
            got_ids = [int(v) for v in cut["idx"]]
            ctx.count("depth_limited_plot_frames_checked")
            if len(got_ids) != len(set(got_ids)) or set(got_ids) != want:
                ctx.violation("C08/plot/max_depth_rows", "max_depth=%d lists %d rows, the tree has %d nodes down to that depth" % (md, len(got_ids), len(want)), **fbase)
                return
            for _, r in cut.iterrows():
                f_ = full[int(r["idx"])]
                for col in ("depth", "cell_count", "count_diff", "kss", "parent_idx"):
                    a_, b_ = r[col], f_[col]
                    same_ = (a_ is None and b_ is None) or (isinstance(a_, float) and isinstance(b_, float) and math.isnan(a_) and math.isnan(b_)) or \
                        (a_ is not None and b_ is not None and close(float(a_), float(b_), rtol=1e-9, atol=1e-12))
                    if not same_:
                        ctx.violation("C08/plot/max_depth_values", "max_depth=%d: column %s of a node at depth %d is %r, in the full listing %r" % (
                            md, col, int(r["depth"]), a_, b_), **fbase)
                        return
    ctx.nontrivial = len(mleaves) >= 4 and nfill >= 2
    ctx.sample = {"family": fam, "shape": [n, d], "count_ubound": cub, "cutpoint_proportion_lbound": prop, "leaves": len(mleaves),
                  "fills": [(len(Y), tid, reset) for (Y, tid, reset) in fills]}
    ctx.digest = "%s-%s-%s-%s" % (hash(X.tobytes()), cub, prop, [(hash(Y.tobytes()), t, r) for (Y, t, r) in fills])


def check_plot(df, P, pairs, expected, id1, id2, ctx, base):
    if len(df) != len(pairs):
        ctx.violation("C08/plot/rows", "to_plotly_dataframe has %d rows, the tree has %d nodes" % (len(df), len(pairs)), **base)
        return False
    if df["idx"].nunique() != len(df):
        ctx.violation("C08/plot/unique_ids", "node ids are not unique", **base)
        return False
    rows = {int(r["idx"]): r for _, r in df.iterrows()}
    ref_tot = expected[id1][id(pairs[0][1])]
    test_tot = expected[id2][id(pairs[0][1])]
    # parent / depth by an own walk
    for nd, depth, par in walk(P.node):
        r = rows.get(id(nd))
        if r is None:
            ctx.violation("C08/plot/rows", "a node is missing from to_plotly_dataframe", **base)
            return False
        pid = None if par is None else id(par)
        rp = r["parent_idx"]
        rp = None if (rp is None or (isinstance(rp, float) and math.isnan(rp))) else int(rp)
        if rp != pid or int(r["depth"]) != depth:
            ctx.violation("C08/plot/parent_depth", "row of a node at depth %d has parent/depth %r/%r" % (depth, r["parent_idx"], r["depth"]), **base)
            return False
    for inode, mnode in pairs:
        r = rows[id(inode)]
        cref, ctest = expected[id1][id(mnode)], expected[id2][id(mnode)]
        if int(r["cell_count"]) != cref or int(r["count_diff"]) != ctest - cref:
            ctx.violation("C08/plot/counts", "row has cell_count/count_diff %r/%r, expected %d/%d" % (r["cell_count"], r["count_diff"], cref, ctest - cref), **base)
            return False
        exp = K.kl(K.distn([cref, ref_tot - cref]), K.distn([ctest, test_tot - ctest]))
        if not close(float(r["kss"]), exp, rtol=1e-9, atol=1e-12):
            ctx.violation("C08/plot/kss", "kss %r, own two-cell corrected KL %r (ref %d of %d, test %d of %d)" % (float(r["kss"]), exp, cref, ref_tot, ctest, test_tot), **base)
            return False
    return True
