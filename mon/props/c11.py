"""C11 - PCA-CD: window filling, per-component divergences on aligned supports, Page-Hinkley alarm,
reference replacement after drift, online_scaling on/off; periodic streams must score 0 (intersection)."""
import warnings

import numpy as np

from menelaus.data_drift import PCACD

from .. import gen
from ..models.base import Shadow, close
from ..models.pcacd import PCACDModel

ID = "C11"
LEVEL = "exploration"
ANCHOR_FILES = ["menelaus/data_drift/pca_cd.py"]
RULE = (
    "stream cases: one per generated multivariate stream (2-6 features, level / variance / correlation shifts) x window_size 20-120 x "
    "ev_threshold 0.5-0.999 x delta x divergence_metric x sample_period x online_scaling; the real detector and the specification are "
    "stepped together and drift_state, samples_since_reset, num_pcs and every change score (observation point named by the property's "
    "anchor) compared after every update.  Periodic cases: a window repeated with period window_size, so that the test window always "
    "equals the reference window as a multiset; every intersection score must be 0.  Non-trivial = at least one drift followed by a "
    "rebuilt reference with further scores (stream cases) or at least 2 components with scores checked (periodic); distinct = digest "
    "of (parameters, data)."
)
ASSUMPTIONS = [
    "sklearn PCA / KernelDensity / StandardScaler semantics and scipy jensenshannon are the trusted base; only their use is checked",
    "sample_period x window_size rounds to at least 1 (a step of 0 divides by zero; undocumented)",
    "intersection scores whose histogram supports have a projected point within 1e-9 of an interior bin edge are adopted from the "
    "implementation (counted); Page-Hinkley near-ties are adopted (counted)",
]


def cases(tier, seed):
    n = 260 if tier == "quick" else 2600
    out = [{"id": "stream/%d" % i, "kind": "stream", "seed": [seed, 11, i], "cost": 3} for i in range(n)]
    out += [{"id": "periodic/%d" % i, "kind": "periodic", "seed": [seed, 111, i], "cost": 1} for i in range(n // 3)]
    out += [{"id": "flag/%d" % i, "kind": "flag", "seed": [seed, 1111, i], "cost": 3} for i in range(max(6, n // 12))]
    out += [{"id": "interleaved/%d" % i, "kind": "interleaved", "seed": [seed, 11111, i], "cost": 3} for i in range(max(10, n // 10))]
    return out


def targets(tier):
    k = 1 if tier == "quick" else 10
    return {"updates": 60000 * k, "scores_compared": 3000 * k, "drifts": 70 * k, "post_drift_rebuilds": 50 * k,
            "cases_2plus_components": 80 * k, "scaling_on_cases": 40 * k, "scaling_off_cases": 40 * k,
            "scores:kl": 800 * k, "scores:intersection": 800 * k, "periodic_scores_zero": 300 * k, "periodic_cases_2plus_components": 20 * k, "flag_twin_runs": 40 * k,
            "interleaved_detector_pairs": 8 * k, "interleaved_updates_compared": 2000 * k}


def gen_stream(rng, d, n, w):
    """correlated Gaussian segments; level, variance and correlation shifts every 1-4 windows"""
    out = []
    mu = rng.normal(0, 1, size=d)
    A = rng.normal(0, 1, size=(d, d))
    while len(out) < n:
        L = int(rng.integers(w, 4 * w))
        r = rng.random()
        if r < 0.4:
            mu = mu + rng.normal(0, 2.0, size=d) * (rng.random(d) < 0.5)
        elif r < 0.6:
            A = A * rng.choice([0.4, 1.0, 2.5], size=(1, d))
        elif r < 0.8:
            A = rng.normal(0, 1, size=(d, d))
        seg = rng.normal(0, 1, size=(L, d)) @ A.T + mu
        out.extend(seg)
    return np.array(out[:n])


def run_case(case, ctx):
    warnings.simplefilter("ignore")
    if case["kind"] == "periodic":
        return run_periodic(case, ctx)
    if case["kind"] == "flag":
        return run_flag(case, ctx)
    if case["kind"] == "interleaved":
        return run_interleaved(case, ctx)
    if "literal" in case:
        kw = dict(case["literal"]["params"])
        data = np.array(case["literal"]["data"], dtype=float)
    else:
        rng = gen.rng_for(case["seed"])
        w = int(rng.choice([20, 30, 50, 80, 120]))
        sp = float(rng.choice([0.05, 0.1, 0.2, 0.2, 0.5, 1.0, 1.5, 2.5]))
        if round(sp * w) < 1:
            sp = 0.1
        kw = dict(window_size=w, ev_threshold=float(rng.choice([0.5, 0.8, 0.95, 0.99, 0.999])), delta=float(rng.choice([0.005, 0.05, 0.1, 0.3])),
                  divergence_metric=str(rng.choice(["kl", "intersection"])), sample_period=sp, online_scaling=bool(rng.integers(0, 2)))
        d = int(rng.integers(2, 7))
        data = gen_stream(rng, d, int(rng.integers(5, 11)) * w, w)
        if kw["online_scaling"] and rng.random() < 0.15:
            # a feature that is constant while the first reference window is collected (a sensor not yet switched on) and varies later
            jc = int(rng.integers(0, d))
            data[: int(w * float(rng.uniform(2.0, 3.2))), jc] = float(np.round(rng.normal(0, 2), 1))
            ctx.count("streams_with_a_feature_constant_at_first")
        if rng.random() < 0.15:
            # dtype varies along the stream: the first two windows are whole numbers handed over with an integer dtype
            data[: 2 * w] = np.round(data[: 2 * w] * 2)
            int_head = 2 * w
    int_head = locals().get("int_head", 0)
    det = gen.construct(PCACD, kw, case, ctx)
    sh = Shadow(lambda: PCACDModel(**kw), lambda m: m.state)
    ctx.count("scaling_on_cases" if kw["online_scaling"] else "scaling_off_cases")
    drifts = 0
    scored_after_rebuild = False
    refuse_at = set()
    if "literal" not in case and len(data) % 3 == 0:
        refuse_at = {int(v) for v in np.random.default_rng([len(data), 11]).integers(1, len(data), size=1 + len(data) % 4)}
    for i, x in enumerate(data):
        if i in refuse_at:
            # a malformed call in the middle of the stream (two rows at once / one column too many): refused, and not a sample - the check
            # schedule, the windows and the counters go on as if it had never been made
            bad = np.vstack([x, x + 1.0]) if i % 2 else np.append(x, 0.5).reshape(1, -1)
            try:
                det.update(bad)
                ctx.count("malformed_samples_accepted")
            except ValueError:
                ctx.count("malformed_samples_refused")
        nsc = len(getattr(det, "_change_score", [0]))
        det.update(x.reshape(1, -1).astype(np.int64) if i < int_head else x.reshape(1, -1).copy())
        if i < int_head and i == 0:
            ctx.count("streams_with_integer_typed_head")
        st = det.drift_state
        cs = getattr(det, "_change_score", None)
        if cs is None:
            ctx.mark_inconclusive("PCACD no longer exposes _change_score (observation point named by the property's anchor)")
            return
        impl_score = float(cs[-1]) if len(cs) > nsc else None
        ok, adopted = sh.step((x, impl_score), st)
        m = sh.model
        ctx.count("updates")
        if adopted:
            ctx.count("near_ties_adopted")
        base = dict(params=kw, data=data[: i + 1].tolist() if (i + 1) * data.shape[1] <= 1500 else "omitted(%d samples; seed in case)" % (i + 1), step=i)
        if not ok:
            ctx.violation("C11/decision", "update %d: drift_state %r, specification %r (score %r, Page-Hinkley margin %r)" % (
                i, st, m.state, m.scores[-1] if m.scores else None, getattr(m.ph, "margin", None)), **base)
            return
        if det.samples_since_reset != m.ssr or det.total_samples != m.total:
            ctx.violation("C11/counters", "update %d: samples_since_reset/total_samples %r/%r, specification %d/%d" % (
                i, det.samples_since_reset, det.total_samples, m.ssr, m.total), **base)
            return
        if m.npc is not None and det.num_pcs != m.npc:
            ctx.violation("C11/num_pcs", "update %d: num_pcs %r, components reaching ev_threshold %r: %d" % (i, det.num_pcs, kw["ev_threshold"], m.npc), **base)
            return
        mscore = m.scores[-1] if (m.scores and len(m.scores) > getattr(sh, "_nsc", 0)) else None
        sh._nsc = len(m.scores)
        if (impl_score is None) != (mscore is None):
            ctx.violation("C11/schedule", "update %d (total %d, step %d): implementation %s a change score, specification %s" % (
                i, m.total, m.step, "computed" if impl_score is not None else "did not compute", "does" if mscore is not None else "does not"), **base)
            return
        if mscore is not None:
            ctx.count("scores_compared")
            ctx.count("scores:" + kw["divergence_metric"])
            if m.edge_prone:
                ctx.count("edge_prone_scores_adopted")
            else:
                tol = 1e-6 if kw["divergence_metric"] == "kl" else 1e-9
                if not close(impl_score, m.own_score, rtol=tol, atol=tol):
                    ctx.violation("C11/score/" + kw["divergence_metric"], "update %d: change score %r, specification %r (%d components, online_scaling %s)" % (
                        i, impl_score, m.own_score, m.npc, kw["online_scaling"]), **base)
                    return
            if m.rebuilds >= 2:
                scored_after_rebuild = True
        if st == "drift":
            drifts += 1
            ctx.count("drifts")
    if sh.model.rebuilds >= 2:
        ctx.count("post_drift_rebuilds", sh.model.rebuilds - 1)
    if (sh.model.npc or 0) >= 2:
        ctx.count("cases_2plus_components")
    ctx.nontrivial = drifts >= 1 and scored_after_rebuild
    ctx.sample = {"params": kw, "features": int(data.shape[1]), "samples": len(data), "drifts": drifts, "components": sh.model.npc,
                  "scores": len(sh.model.scores)}
    ctx.digest = "%s-%s" % (sorted(kw.items()), hash(data.tobytes()))


def run_periodic(case, ctx):
    rng = gen.rng_for(case["seed"])
    w = int(rng.choice([20, 30, 50, 80]))
    d = int(rng.integers(2, 6))
    kw = dict(window_size=w, ev_threshold=float(rng.choice([0.9, 0.99, 0.999])), delta=0.1, divergence_metric="intersection",
              sample_period=float(rng.choice([0.05, 0.1])), online_scaling=bool(rng.integers(0, 2)))
    if round(kw["sample_period"] * w) < 1:
        kw["sample_period"] = 0.1
    A = rng.normal(0, 1, size=(d, d))
    base_win = rng.normal(0, 1, size=(w, d)) @ A.T + rng.normal(0, 3, size=d)
    det = PCACD(**kw)
    n = 4 * w + int(rng.integers(0, w))
    zero = 0
    for i in range(n):
        x = base_win[i % w]
        nsc = len(det._change_score)
        det.update(x.reshape(1, -1).copy())
        if len(det._change_score) > nsc:
            s = float(det._change_score[-1])
            if abs(s) > 1e-9:
                ctx.violation("C11/periodic_score",
                              "sample %d of a stream with period window_size=%d (test window = reference window as a multiset): intersection change score %r, "
                              "must be 0 (%d components, online_scaling %s)" % (i, w, s, det.num_pcs, kw["online_scaling"]),
                              params=kw, base_window=base_win.tolist() if base_win.size <= 400 else "omitted", step=i)
                return
            zero += 1
            ctx.count("periodic_scores_zero")
        if det.drift_state is not None:
            ctx.violation("C11/periodic_drift", "sample %d: drift reported on a stream whose test window always equals the reference window" % i, params=kw, step=i)
            return
    if (det.num_pcs or 0) >= 2:
        ctx.count("periodic_cases_2plus_components")
    ctx.nontrivial = (det.num_pcs or 0) >= 2 and zero >= 2
    ctx.sample = {"kind": "periodic", "params": kw, "features": d, "components": det.num_pcs, "scores_checked": zero}
    ctx.digest = "per-%s-%s" % (sorted(kw.items()), hash(base_win.tobytes()))


def run_interleaved(case, ctx):
    """two detectors alive at the same time, updated in turn on their own streams (and rebuilding after their own drifts at
    different moments): each must produce exactly the trace it produces when it runs alone"""
    rng = gen.rng_for(case["seed"])
    dets = []
    for _ in range(2):
        w = int(rng.choice([20, 30, 50]))
        kw = dict(window_size=w, ev_threshold=float(rng.choice([0.8, 0.95, 0.99])), delta=float(rng.choice([0.005, 0.05, 0.1])),
                  divergence_metric=str(rng.choice(["kl", "intersection", "intersection"])), sample_period=float(rng.choice([0.1, 0.2])),
                  online_scaling=bool(rng.integers(0, 2)))
        d = int(rng.integers(2, 5))
        data = gen_stream(rng, d, int(rng.integers(6, 10)) * w, w) * float(rng.choice([1.0, 3.0])) + float(rng.choice([0.0, 5.0]))
        dets.append((kw, data))

    def obs(det):
        return (det.drift_state, det.samples_since_reset, len(det._change_score), round(float(det._change_score[-1]), 9))

    solo = []
    for kw, data in dets:
        det = PCACD(**kw)
        tr = []
        for x in data:
            det.update(x.reshape(1, -1).copy())
            tr.append(obs(det))
        solo.append(tr)
    live = [PCACD(**kw) for kw, _ in dets]
    pos = [0, 0]
    chunk = int(rng.choice([1, 1, 7, 25]))
    drifts = 0
    while pos[0] < len(dets[0][1]) or pos[1] < len(dets[1][1]):
        for j in (0, 1):
            for _ in range(chunk):
                if pos[j] >= len(dets[j][1]):
                    break
                live[j].update(dets[j][1][pos[j]].reshape(1, -1).copy())
                got = obs(live[j])
                ctx.count("interleaved_updates_compared")
                if got != solo[j][pos[j]]:
                    ctx.violation("C11/instances_not_independent", "detector %d of two interleaved PCACD detectors, update %d: (state, since reset, scores, last score) = %r, "
                                  "the same detector running alone gives %r" % (j, pos[j], got, solo[j][pos[j]]),
                                  params=[dets[0][0], dets[1][0]], chunk=chunk, step=pos[j])
                    return
                drifts += got[0] == "drift"
                pos[j] += 1
    ctx.count("interleaved_detector_pairs")
    ctx.nontrivial = drifts >= 1
    ctx.sample = {"kind": "two interleaved detectors", "params": [dets[0][0], dets[1][0]], "chunk": chunk, "drifts": drifts}
    ctx.digest = "inter-%s" % (case["seed"],)


def run_flag(case, ctx):
    """online_scaling given as a truthy / falsy value that is not the literal True / False (numpy bool, 0 / 1 from a parameter grid):
    the run must coincide with the literal-True run for truthy values and with the literal-False run for falsy ones - never the other
    mode (a flag silently ignored) and never a mixture of the two modes"""
    rng = gen.rng_for(case["seed"])
    w = int(rng.choice([20, 30]))
    kw = dict(window_size=w, ev_threshold=float(rng.choice([0.8, 0.95, 0.99])), delta=float(rng.choice([0.005, 0.05])),
              divergence_metric=str(rng.choice(["kl", "intersection"])), sample_period=0.1)
    d = int(rng.integers(2, 5))
    data = gen_stream(rng, d, 7 * w, w) * 3.0 + 5.0  # location / scale far from (0, 1) so that the two modes differ

    def trace(flag):
        det = PCACD(online_scaling=flag, **kw)
        out = []
        for x in data:
            det.update(x.reshape(1, -1).copy())
            out.append((det.drift_state, det.samples_since_reset, len(det._change_score), round(float(det._change_score[-1]), 9)))
        return out

    t_on, t_off = trace(True), trace(False)
    for flag in (np.True_, np.False_, 1, 0):
        t = trace(flag)
        ctx.count("flag_twin_runs")
        if t != t_on and t != t_off:
            ctx.violation("C11/online_scaling_mode_mixture", "online_scaling=%r gives a run that equals neither the online_scaling=True run nor the "
                          "online_scaling=False run" % (flag,), params=dict(kw, online_scaling=repr(flag)))
            return
        if t_on != t_off and t != (t_on if flag else t_off):
            ctx.violation("C11/online_scaling_flag_ignored", "online_scaling=%r (a %s value) runs in the %s mode" % (
                flag, "truthy" if flag else "falsy", "off" if flag else "on"), params=dict(kw, online_scaling=repr(flag)))
            return
    ctx.nontrivial = t_on != t_off
    ctx.sample = {"kind": "online_scaling flag twins", "params": kw, "samples": len(data), "modes_differ": t_on != t_off}
    ctx.digest = "flag-%s-%s" % (sorted(kw.items()), hash(data.tobytes()))
