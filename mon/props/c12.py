"""C12 - an ensemble is its election applied to members that run exactly as if alone.

Twin differential: every member has an identically constructed stand-alone twin that receives the selector's columns
(the whole X without a selector), y_true and y_pred under the same per-member numpy seed; after every ensemble call the
member's complete state is compared with the twin's (structural, cycle-safe), drift_states / retraining_recs with the
twins' values, the ensemble verdict with an independent implementation of the election applied to the twins in insertion
order, and the ensemble's own counters with the update count."""
import copy
import warnings

import numpy as np
import pandas as pd

from menelaus.ensemble import (BatchEnsemble, ConfirmedElection, MinimumApprovalElection, OrderedApprovalElection, SimpleMajorityElection,
                               StreamingEnsemble)

from .. import gen, rngtap, zoo
from ..deepcmp import deep_equal
from .c13 import model_step

ID = "C12"
LEVEL = "exploration"
ANCHOR_FILES = ["menelaus/ensemble/ensemble.py", "menelaus/ensemble/election.py"]
RULE = (
    "one case per generated ensemble (1-5 members drawn from the streaming zoo - DDM, EDDM, STEPD, ADWINAccuracy, LinearFourRates on "
    "labels, ADWIN / CUSUM / PageHinkley on one selected column, KdqTreeStreaming / PCACD on column subsets - or from the batch zoo - "
    "HDDDM, CDBD, KdqTreeBatch, NNDVI), one of the four election types with drawn parameters, recording column selectors (subsets, "
    "re-ordered columns, views; ndarray and DataFrame inputs) and a history in which members drift at different times, with occasional "
    "explicit reset / set_reference calls.  Non-trivial = at least two members reported drift at different steps; distinct = (member "
    "mix, election, input digest)."
)
ASSUMPTIONS = [
    "each member's update / set_reference is wrapped on the instance by a thin proxy that seeds numpy's global generator with a "
    "per-member per-call seed before delegating; the twin is wrapped identically",
    "MD3 needs its oracle protocol and is not placed in ensembles",
]

STREAM_LABEL = ["DDM", "EDDM", "STEPD", "ADWINAccuracy", "LinearFourRates"]
STREAM_X1 = ["ADWIN", "CUSUM", "PageHinkley"]
STREAM_XD = ["KdqTreeStreaming", "PCACD"]
BATCH = ["HDDDM", "CDBD", "KdqTreeBatch", "NNDVI"]


def cases(tier, seed):
    n = 70 if tier == "quick" else 800
    out = [{"id": "stream/%d" % i, "kind": "stream", "seed": [seed, 12, i], "cost": 2} for i in range(n)]
    # ensembles of warning-capable members under the two elections that can return "warning" (otherwise such verdicts are a matter of luck)
    out += [{"id": "warnmix/%d" % i, "kind": "stream", "warn": True, "seed": [seed, 1212, i], "cost": 2} for i in range(max(8, n // 8))]
    out += [{"id": "batch/%d" % i, "kind": "batch", "seed": [seed, 120, i], "cost": 2} for i in range(n)]
    return out


def targets(tier):
    k = 1 if tier == "quick" else 10
    t = {"ensemble_calls": 8000 * k, "member_states_compared": 20000 * k, "histories_members_drift_at_different_steps": 50 * k,
         "ensemble_verdict:drift": 100 * k, "ensemble_verdict:warning": 20 * k, "explicit_resets": 30 * k, "selector_calls_checked": 5000 * k}
    for e in ("SimpleMajorityElection", "MinimumApprovalElection", "OrderedApprovalElection", "ConfirmedElection", "ProbeElection"):
        t["histories:" + e] = 10 * k
    t["probe_election_calls"] = 1000 * k
    return t


def seeded(obj, method, key):
    """instance-level proxy: seed numpy per (member, method, call number), then delegate"""
    orig = getattr(obj, method)
    n = [0]

    def proxy(*a, **k):
        np.random.seed(rngtap.seed_for(key, method, n[0]))
        n[0] += 1
        return orig(*a, **k)

    setattr(obj, method, proxy)


class ElectionModel:
    """independent implementation of the four voting rules (C13's oracles)"""

    def __init__(self, kind, params, n):
        self.kind, self.p = kind, params
        self.rem = tuple([None] * n)

    def __call__(self, states):
        k = sum(s == "drift" for s in states)
        n = len(states)
        if self.kind == "ProbeElection":
            return probe_rule(list(states))
        if self.kind == "SimpleMajorityElection":
            return "drift" if 2 * k > n else None
        if self.kind == "MinimumApprovalElection":
            return "drift" if k >= self.p["approvals_needed"] else None
        if self.kind == "OrderedApprovalElection":
            return "drift" if k >= self.p["approvals_needed"] + self.p["confirmations_needed"] else None
        self.rem, ret = model_step(self.rem, tuple(states), self.p["sensitivity"], self.p["wait_time"])
        return ret


class ProbeElection:
    """user-supplied, order-sensitive election callable that records what it is handed (the ensemble accepts any callable)"""

    def __init__(self):
        self.seen = []

    def __call__(self, detectors):
        dets = list(detectors)
        self.seen.append([id(d) for d in dets])
        return probe_rule([d.drift_state for d in dets])


def probe_rule(states):
    if states and states[0] == "drift":
        return "drift"
    if states and states[-1] == "warning":
        return "warning"
    return None


def make_election(rng, n):
    kind = str(rng.choice(["SimpleMajorityElection", "MinimumApprovalElection", "OrderedApprovalElection", "ConfirmedElection", "ConfirmedElection",
                           "ProbeElection"]))
    if kind == "ProbeElection":
        return kind, {}, ProbeElection()
    if kind == "SimpleMajorityElection":
        return kind, {}, SimpleMajorityElection()
    if kind == "MinimumApprovalElection":
        p = {"approvals_needed": int(rng.integers(1, n + 1))}
        return kind, p, MinimumApprovalElection(**p)
    if kind == "OrderedApprovalElection":
        a = int(rng.integers(1, max(2, n)))
        p = {"approvals_needed": a, "confirmations_needed": int(rng.integers(0, max(1, n - a) + 1))}
        return kind, p, OrderedApprovalElection(**p)
    p = {"sensitivity": int(rng.integers(1, n + 1)), "wait_time": int(rng.integers(0, 12))}
    return kind, p, ConfirmedElection(**p)


class Selector:
    """recording column selector"""

    def __init__(self, cols, frame):
        self.cols, self.frame = cols, frame
        self.calls = 0

    def __call__(self, X):
        self.calls += 1
        if self.frame:
            return X[self.cols]
        return X[:, self.cols]


def run_case(case, ctx):
    warnings.simplefilter("ignore")
    rng = gen.rng_for(case["seed"], case["kind"])
    stream = case["kind"] == "stream"
    key = case.get("seed_key", case["id"])
    nm = int(rng.integers(1, 6))
    d = int(rng.integers(3, 6))
    frame = bool(rng.random() < 0.5)
    colnames = ["c%d" % j for j in range(d)]
    pool = (STREAM_LABEL * 2 + STREAM_X1 * 2 + STREAM_XD) if stream else BATCH
    members, twins, selectors, twin_sel, names, params_all = {}, {}, {}, {}, {}, {}
    for m in range(nm):
        name = str(rng.choice(pool))
        params = zoo.draw_params(name, rng)
        if case.get("warn"):
            name = str(rng.choice(["DDM", "EDDM", "STEPD"]))
            params = zoo.draw_params(name, rng)
            # a wide zone between the warning and the drift threshold
            params.update({"DDM": dict(warning_scale=0.5, drift_scale=3.0), "EDDM": dict(warning_thresh=0.98, drift_thresh=0.7),
                           "STEPD": dict(alpha_warning=0.3, alpha_drift=0.003)}[name])
        if name == "PCACD":
            params["window_size"] = 20
        if name == "CUSUM" and params["target"] is None:
            params["burn_in"] = max(3, params["burn_in"])  # one observation has no variance: CUSUM raises by design
        mid = "m%d_%s" % (m, name)
        names[mid], params_all[mid] = name, params
        members[mid] = zoo.make(name, params)
        twins[mid] = zoo.make(name, params)
        k = zoo.kind(name)
        if k == "x1" or name == "CDBD":
            cols = [int(rng.integers(0, d))]
        elif k in ("xd", "batch"):
            width = int(rng.integers(2, d + 1)) if name == "PCACD" else int(rng.integers(1, d + 1))
            cols = [int(c) for c in rng.permutation(d)[:width]]
        else:
            cols = None
        if cols is not None and (k in ("x1",) or name == "CDBD" or rng.random() < 0.8):
            sel_cols = [colnames[c] for c in cols] if frame else cols
            selectors[mid] = Selector(sel_cols, frame)
            twin_sel[mid] = (sel_cols, cols)
        for obj, tag in ((members[mid], "m"), (twins[mid], "m")):
            seeded(obj, "update", (key, mid))
            if not stream:
                seeded(obj, "set_reference", (key, mid))
    ekind, eparams, election = make_election(rng, nm)
    if case.get("warn"):
        if rng.random() < 0.7:
            ekind, eparams = "ConfirmedElection", {"sensitivity": int(rng.integers(1, nm + 1)), "wait_time": int(rng.integers(0, 6))}
            election = ConfirmedElection(**eparams)
        else:
            ekind, eparams, election = "ProbeElection", {}, ProbeElection()
    emodel = ElectionModel(ekind, eparams, nm)
    Ens = StreamingEnsemble if stream else BatchEnsemble
    passed_members, passed_selectors = dict(members), dict(selectors)
    ens = Ens(passed_members, election, passed_selectors)
    # what the caller does with its own dicts afterwards (e.g. re-using them for a second ensemble) is not the ensemble's business
    passed_members["zz_added_by_the_caller_later"] = zoo.make("ADWIN", zoo.draw_params("ADWIN", np.random.default_rng(0)))
    passed_selectors.pop(next(iter(passed_selectors)), None) if passed_selectors else None
    ctx.count("histories:" + ekind)
    # ---- workload: X with level shifts per column at different times; labels with shifting error rate
    if stream:
        n = int(rng.integers(150, 400))
        X = np.column_stack([gen.level_shift_stream(rng, n, seg=(10, 120), offset=float(rng.choice([0.0, 5.0])), const=False) for _ in range(d)])
        X = np.abs(X) + 1.0 if any(nm_ == "PageHinkley" for nm_ in names.values()) else X
        errs = gen.bernoulli_piecewise(rng, n, seg=(5, 120))
        yts = rng.integers(0, 2, size=n)
        steps = [("update", i) for i in range(n)]
        for _ in range(int(rng.integers(0, 3))):
            steps.insert(int(rng.integers(5, n)), ("reset", None))
    else:
        batches = gen.batch_sequence(rng, int(rng.integers(8, 22)), d, size=(10, 40), shift_p=0.4, integer_p=0.0, const_p=0.0)
        steps = [("set_reference", 0)] + [("update", i) for i in range(1, len(batches))]
        for _ in range(int(rng.integers(0, 3))):
            pos = int(rng.integers(2, len(steps)))
            steps.insert(pos, ("reset", None) if rng.random() < 0.4 else ("set_reference", int(rng.integers(0, len(batches)))))
        if rng.random() < 0.3:
            # reset straight after a (re-)baselining, before any update; sometimes twice in a row
            pos = 1 + [s[0] for s in steps[1:]].index("update") if "update" in [s[0] for s in steps[1:]] else 1
            steps[pos:pos] = [("reset", None)] * int(rng.integers(1, 3))
            ctx.count("resets_straight_after_set_reference")
        # after an explicit reset batch detectors need a reference again before the next update
        fixed = []
        for s in steps:
            if s[0] == "reset" and fixed and fixed[-1][0] == "set_reference" and fixed[-1] is not steps[0] and len(fixed) > 1 and fixed[-2][0] == "reset":
                fixed.pop()  # reset, (forced) set_reference, reset: keep the two resets adjacent
            fixed.append(s)
            if s[0] == "reset":
                fixed.append(("set_reference", int(rng.integers(0, len(batches)))))
        steps = fixed
    total = since = 0
    xbuf_mode = bool(stream and rng.random() < 0.25)
    xbuf = [None]
    drift_steps = {mid: set() for mid in members}
    swap_at = int(rng.integers(20, len(steps))) if (stream and len(steps) > 40 and rng.random() < 0.2) else None
    for si, (op, idx) in enumerate(steps):
        base = dict(members=[(mid, names[mid], params_all[mid]) for mid in members], election=[ekind, eparams], step=si, op=op,
                    selectors={mid: s.cols for mid, s in selectors.items()})
        if si == swap_at:
            # the user replaces one member by a freshly built detector under the same key (the members are a public dict): from now on
            # the ensemble must work with - and report - the new object
            mid = list(members)[int(rng.integers(0, len(members)))]
            for store in (members, twins):
                store[mid] = zoo.make(names[mid], params_all[mid])
                seeded(store[mid], "update", (key, mid, "swapped"))
            ens.detectors[mid] = members[mid]
            ctx.count("members_replaced_under_the_same_key")
        if op == "reset":
            ens.reset()
            for t in twins.values():
                t.reset()
            since = 0
            ctx.count("explicit_resets")
        else:
            if stream:
                row = X[idx: idx + 1]
                arg = pd.DataFrame(row.copy(), columns=colnames) if frame else row.copy()
                if xbuf_mode:
                    # the caller keeps one row object and refills it in place before every update; the twins get fresh copies
                    if xbuf[0] is None:
                        xbuf[0] = arg
                        ctx.count("stream_histories_through_one_reused_row_object")
                    elif frame:
                        xbuf[0].iloc[:, :] = row
                    else:
                        xbuf[0][...] = row
                    ens_arg = xbuf[0]
                else:
                    ens_arg = arg
                yt = int(yts[idx])
                yp = yt ^ int(errs[idx])
                sel0 = {mid: s.calls for mid, s in selectors.items()}
                if rng.random() < 0.03:
                    # a malformed call (two observations at once): members that look at X refuse it.  The members before the refusing
                    # one have been updated (exactly like their twins, which are driven in the same order); the ensemble must pass the
                    # ValueError on and must not count the call
                    two = np.vstack([row, row + 1.0])
                    bad = pd.DataFrame(two, columns=colnames) if frame else two
                    c0 = zoo.counters(ens)
                    try:
                        ens.update(bad, yt, yp)
                        raised = False
                    except ValueError:
                        raised = True
                    traised = False
                    for mid, t in twins.items():
                        xin = bad
                        if mid in twin_sel:
                            xin = bad[twin_sel[mid][0]] if frame else bad[:, twin_sel[mid][1]]
                        try:
                            t.update(X=xin, y_true=yt, y_pred=yp)
                        except ValueError:
                            traised = True
                            break
                    ctx.count("malformed_ensemble_calls")
                    if raised != traised:
                        ctx.violation("C12/malformed_call", "call %d: a two-row X %s by the ensemble but %s by the members run alone" % (
                            si, "was refused" if raised else "was accepted", "refused" if traised else "accepted"), **base)
                        return
                    if raised:
                        if zoo.counters(ens) != c0:
                            ctx.violation("C12/ensemble_counters_after_rejection", "call %d: the ensemble counted a call that one of its members refused (%r -> %r)" % (
                                si, c0, zoo.counters(ens)), **base)
                            return
                        op = "rejected_update"
                    else:
                        total += 1
                        since += 1
                else:
                    try:
                        ens.update(ens_arg, yt, yp)
                    except ValueError as e:
                        if "Standard deviation is 0" in str(e):
                            ctx.count("cusum_zero_variance_case_ended")
                            break
                        raise
                    total += 1
                    since += 1
                    for mid, t in twins.items():
                        xin = arg
                        if mid in twin_sel:
                            xin = arg[twin_sel[mid][0]] if frame else arg[:, twin_sel[mid][1]]
                        t.update(X=xin, y_true=yt, y_pred=yp)
            else:
                B = batches[idx]
                arg = pd.DataFrame(B.copy(), columns=colnames) if frame else B.copy()
                sel0 = {mid: s.calls for mid, s in selectors.items()}
                if op == "set_reference":
                    ens.set_reference(arg)
                else:
                    ens.update(arg)
                    total += 1
                    since += 1
                for mid, t in twins.items():
                    xin = arg
                    if mid in twin_sel:
                        xin = arg[twin_sel[mid][0]] if frame else arg[:, twin_sel[mid][1]]
                    getattr(t, op)(X=xin, y_true=None, y_pred=None)
            for mid, s in selectors.items():
                if op == "rejected_update":
                    break
                ctx.count("selector_calls_checked")
                if s.calls != sel0[mid] + 1:
                    # how often a selector is applied is not part of the property (what the member ends up with is: the twin comparison
                    # below); counted for information only
                    ctx.count("selector_applied_other_than_once")
        ctx.count("ensemble_calls")
        # ---- members vs twins
        for mid in members:
            ctx.count("member_states_compared")
            diff = deep_equal(ens.detectors[mid], twins[mid])
            if diff:
                ctx.violation("C12/member_state/" + names[mid], "after call %d (%s): member %s differs from its stand-alone twin at %s" % (si, op, mid, diff), **base)
                return
        states = [twins[mid].drift_state for mid in members]
        if ens.drift_states != {mid: twins[mid].drift_state for mid in members} or list(ens.drift_states) != list(members):
            ctx.violation("C12/drift_states", "call %d: drift_states %r, members' values %r" % (si, ens.drift_states, states), **base)
            return
        exp_recs = {mid: zoo.recs(twins[mid]) for mid in members if hasattr(twins[mid], "retraining_recs")}
        got_recs = {mid: [None if v is None else int(v) for v in list(r)] for mid, r in ens.retraining_recs.items()}
        if got_recs != exp_recs:
            ctx.violation("C12/retraining_recs", "call %d: retraining_recs %r, members' values %r" % (si, got_recs, exp_recs), **base)
            return
        if op == "update":
            verdict = emodel(states)
            got = ens.drift_state
            if got != verdict:
                ctx.violation("C12/election/" + ekind, "call %d: ensemble drift_state %r, %s%r applied to the members' states %r in insertion order gives %r" % (
                    si, got, ekind, eparams, states, verdict), **base)
                return
            if ekind == "ProbeElection":
                ctx.count("probe_election_calls")
                if election.seen[-1] != [id(ens.detectors[mid]) for mid in members]:
                    ctx.violation("C12/election_argument_order", "call %d: the election was not handed the member objects in insertion order" % si, **base)
                    return
            if verdict is not None:
                ctx.count("ensemble_verdict:" + verdict)
            for mid, s in zip(members, states):
                if s == "drift":
                    drift_steps[mid].add(si)
        tot, snc = zoo.counters(ens)
        if (tot, snc) != (total, since):
            ctx.violation("C12/ensemble_counters", "call %d (%s): ensemble total/since-reset %r/%r, %d updates in all and %d since the last explicit reset" % (
                si, op, tot, snc, total, since), **base)
            return
    firsts = {min(v) for v in drift_steps.values() if v}
    if len(firsts) >= 2:
        ctx.count("histories_members_drift_at_different_steps")
    ctx.nontrivial = len(firsts) >= 2
    ctx.sample = {"kind": case["kind"], "members": [(names[m], params_all[m]) for m in members], "election": [ekind, eparams],
                  "selectors": {m: s.cols for m, s in selectors.items()}, "calls": len(steps), "frame_input": frame}
    ctx.digest = "%s-%s-%s-%s" % (case["kind"], [names[m] for m in members], ekind, case["seed"])
