"""C18 - batch detectors ignore the order of rows inside a batch: twin differential between the original history
and histories in which every batch (and the reference) is independently permuted."""
import warnings

import numpy as np

from .. import gen, rngtap, zoo

ID = "C18"
LEVEL = "exploration"
DETS = ("HDDDM", "CDBD", "KdqTreeBatch", "NNDVI")
ANCHOR_FILES = ["menelaus/data_drift/histogram_density_method.py", "menelaus/data_drift/kdq_tree.py", "menelaus/data_drift/nndvi.py",
                "menelaus/partitioners/NNSpacePartitioner.py", "menelaus/partitioners/KDQTreePartitioner.py"]
RULE = (
    "one case per (detector, parameters, batch sequence with equal and unequal batch sizes, duplicates; as arrays or as frames with unique, repeated or string row labels; "
    "a quarter of the histories ordered by one feature): the original run is compared with "
    "runs in which every batch and the reference are independently permuted (reversal, rotation, random shuffle) under the same per-call "
    "numpy seed.  HDDDM / CDBD (detect_batch 2 or 3): the recorded distances must be equal - for detect_batch 3 together with the complete "
    "decision trace, for detect_batch 2 up to and including the first batch at which the decision traces part (the bootstrap threshold "
    "legitimately depends on row positions).  KdqTreeBatch: leaf counts / count differences of the public plot frame (hence the divergence) "
    "and the decision trace; NNDVI: decision trace and reference contents (as a multiset of rows).  Non-trivial = the original run contains "
    "a drift; distinct = (detector, parameters, input digest)."
)
ASSUMPTIONS = [
    "all compared quantities are functions of counts / sorted sets, so equality is exact (floats compared with rtol 1e-12)",
    "HDDDM / CDBD with detect_batch 1 split the reference by position and are outside the property",
]


def cases(tier, seed):
    n = 45 if tier == "quick" else 500
    out = []
    for name in DETS:
        for i in range(n):
            out.append({"id": "%s/%d" % (name, i), "det": name, "seed": [seed, 18, i], "cost": 3 if name in ("KdqTreeBatch", "NNDVI") else 1})
    return out


def targets(tier):
    k = 1 if tier == "quick" else 10
    t = {"permuted_runs_compared": 400 * k, "batches_compared": 6000 * k, "nndvi_unequal_size_pairs": 200 * k}
    for name in DETS:
        t["histories_with_drift:" + name] = 12 * k
    t["db3_full_traces"] = 15 * k
    return t


def permute(X, how, rng):
    n = len(X)
    if how == "reverse":
        return X[::-1].copy()
    if how == "rotate":
        return np.roll(X, max(1, n // 3), axis=0).copy()
    return X[rng.permutation(n)].copy()


class _Rec:
    last = None


def _recording_partitioner():
    import menelaus.data_drift.nndvi as nndvi_mod
    from menelaus.partitioners import NNSpacePartitioner

    class Rec(NNSpacePartitioner):
        def build(self, sample1, sample2):
            super().build(sample1, sample2)
            _Rec.last = self

    return nndvi_mod, NNSpacePartitioner, Rec


def run(name, params, batches, key, frames=None, as_object=False, rebase_at=frozenset()):
    if name == "NNDVI":
        # the NN-DVI distance is not published by the detector: it is read off the partitioner the detector builds in each update
        nndvi_mod, orig, Rec = _recording_partitioner()
        if hasattr(nndvi_mod, "NNSpacePartitioner"):
            nndvi_mod.NNSpacePartitioner = Rec
            try:
                return _run(name, params, batches, key, frames, as_object, rebase_at)
            finally:
                nndvi_mod.NNSpacePartitioner = orig
    return _run(name, params, batches, key, frames, as_object, rebase_at)


def _run(name, params, batches, key, frames=None, as_object=False, rebase_at=frozenset()):
    """frames: None (ndarrays) or a list of index arrays - batch i is then handed over as a DataFrame carrying those row labels
    (a shuffled frame keeps its labels, e.g. after df.sample(frac=1))"""
    import pandas as pd

    det = zoo.make(name, params)
    out = []
    for i, X in enumerate(batches):
        rebase = i in rebase_at  # the user re-baselines in the middle of the history
        if not (isinstance(key, tuple) and key[0] == "seed_once") or i == 0:
            # "under a fixed seed": either numpy is seeded before every call, or once at the start of the history (then the random
            # draws of a call also depend on how much every earlier call consumed - which must not depend on row order either)
            np.random.seed(rngtap.seed_for(key, i))
        if frames is not None:
            arg = pd.DataFrame(np.asarray(X).copy(), columns=["c%d" % j for j in range(X.shape[1])], index=frames[i])
            if (i == 0 and name != "KdqTreeBatch") or rebase:
                det.set_reference(arg)
            else:
                det.update(arg)
        elif as_object:
            # the same numbers in an object-dtype array: whole numbers as Python ints, the others as Python floats
            arg = np.array([[int(v) if float(v).is_integer() else float(v) for v in r] for r in np.asarray(X).tolist()], dtype=object)
            det.set_reference(arg) if rebase else zoo.feed(det, name, arg, first=(i == 0))
        else:
            _Rec.last = None
            det.set_reference(np.asarray(X).copy()) if rebase else zoo.feed(det, name, X, first=(i == 0))
        o = {"state": det.drift_state}
        if name in ("HDDDM", "CDBD"):
            o["distance"] = zoo.fl(det.current_distance) if i > 0 else None
        elif name == "KdqTreeBatch":
            try:
                df = det.to_plotly_dataframe()
                o["counts"] = [df["cell_count"].tolist(), df["count_diff"].tolist(), df["depth"].tolist()]
            except Exception:
                o["counts"] = None
        elif name == "NNDVI":
            o["reference"] = sorted(map(tuple, np.asarray(det.reference_batch).tolist()))
            p_ = _Rec.last
            if i > 0 and p_ is not None:
                o["nndvi_distance"] = zoo.fl(type(p_).compute_nnps_distance(p_.nnps_matrix, p_.v1, p_.v2))
            _Rec.last = None
        out.append(o)
    return out


def run_case(case, ctx):
    warnings.simplefilter("ignore")
    name = case["det"]
    rng = gen.rng_for(case["seed"], name)
    params = zoo.draw_params(name, rng)
    if name in ("HDDDM", "CDBD"):
        params["detect_batch"] = int(rng.choice([2, 3]))
    batches = zoo.workload(name, rng, params)
    if rng.random() < 0.4:
        # equal batch sizes as well
        m = min(len(b) for b in batches)
        batches = [b[:m] for b in batches]
    key = case.get("seed_key", case["id"])
    if name in ("NNDVI", "KdqTreeBatch") and rng.random() < 0.5:
        key = ("seed_once", key)
        ctx.count("histories_seeded_once_at_the_start")
    as_frames = bool(rng.random() < 0.3)
    if rng.random() < 0.25:
        # records that arrive ordered by one of their features (a counter, a timestamp, a sorted export): the original history is
        # the ordered one, the permuted histories are not
        j_ = int(rng.integers(0, batches[0].shape[1]))
        batches = [b[np.argsort(b[:, j_], kind="stable")] for b in batches]
        if rng.random() < 0.5 and name != "NNDVI":
            # ties along the ordered feature (a quarter of the data's own scale; NN-DVI needs more distinct points than neighbours)
            sc_ = float(np.std(np.vstack(batches))) or 1.0
            batches = [np.round(b / sc_ * 4) / 4 * sc_ for b in batches]
        ctx.count("histories_ordered_by_a_feature")
    as_object = False
    if name == "NNDVI" and rng.random() < 0.3:
        # readings on a decimal grid around zero: exact distance ties between neighbours, sums that are inexact in binary
        g_ = float(rng.choice([0.1, 0.1, 0.5]))
        cand = [np.round(b / g_) * g_ for b in batches]
        if all(len(np.unique(c_, axis=0)) >= params["k_nn"] + 1 for c_ in cand):  # every possible pool has more points than neighbours
            batches = cand
            ctx.count("nndvi_histories_on_a_decimal_grid")
    if name != "NNDVI" and not as_frames and rng.random() < 0.15:
        # object-dtype batches holding Python ints and floats (a column read from mixed records); a third of the rows are whole numbers
        as_object = True
        batches = [np.where((np.arange(len(b)) % 3 == int(rng.integers(0, 3)))[:, None], np.round(b), b) for b in batches]
        ctx.count("histories_as_object_arrays")
    rebase_at = set()
    if rng.random() < (0.6 if name == "NNDVI" else 0.3) and len(batches) >= 5:
        # the same batch submitted twice in a row (a replayed message), and a batch submitted again right after the user re-baselined on
        # other data: in the original history the repeats arrive in identical row order, in the permuted histories they do not
        j_ = int(rng.integers(2, len(batches) - 1))
        batches = batches[:j_] + [batches[j_ - 1].copy()] + batches[j_:]
        if rng.random() < 0.6 and name != "NNDVI":
            r_ = int(rng.integers(2, len(batches) - 1))
            batches = batches[:r_] + [batches[r_], batches[r_ - 1].copy()] + batches[r_ + 1:]
            rebase_at = {r_}
        ctx.count("histories_with_repeated_batches")
    labels = None
    if as_frames:
        ctx.count("histories_as_labelled_frames")
        r_ = rng.random()
        if r_ < 0.5:
            labels = [np.arange(len(b)) for b in batches]
        elif r_ < 0.8:
            # stitched from chunks without ignore_index: row labels repeat
            labels = [np.arange(len(b)) % max(2, len(b) // int(rng.integers(2, 5))) for b in batches]
            ctx.count("histories_with_repeated_row_labels")
        else:
            labels = [np.array(["r%d" % v for v in rng.permutation(len(b))], dtype=object) for b in batches]
    if as_object:
        try:
            zoo.feed(zoo.make(name, params), name, np.array(batches[0].tolist(), dtype=object), first=True)
        except (ValueError, TypeError):
            as_object = False  # object arrays are refused outright: nothing to permute
            ctx.count("object_arrays_refused")
    orig = run(name, params, batches, key, labels, as_object, rebase_at)
    drift = any(o["state"] == "drift" for o in orig)
    if name == "NNDVI":
        ctx.count("nndvi_unequal_size_pairs", sum(1 for a, b in zip(batches, batches[1:]) if len(a) != len(b)))
    for how in ("reverse", "rotate", "shuffle", "shuffle"):
        if as_frames:
            orders = [np.arange(len(b))[::-1] if how == "reverse" else (np.roll(np.arange(len(b)), max(1, len(b) // 3)) if how == "rotate" else rng.permutation(len(b)))
                      for b in batches]
            pb = [b[o].copy() for b, o in zip(batches, orders)]
            perm = run(name, params, pb, key, [l[o] for l, o in zip(labels, orders)], False, rebase_at)
        else:
            pb = [permute(b, how, rng) for b in batches]
            perm = run(name, params, pb, key, None, as_object, rebase_at)
        ctx.count("permuted_runs_compared")
        parted = False
        for i, (a, b) in enumerate(zip(orig, perm)):
            base = dict(detector=name, params=params, permutation=how, step=i, batch_sizes=[len(x) for x in batches[: i + 1]])
            ctx.count("batches_compared")
            if name in ("HDDDM", "CDBD"):
                if a["distance"] is not None and abs(a["distance"] - b["distance"]) > 1e-12 * max(1.0, abs(a["distance"])):
                    ctx.violation("C18/%s/distance" % name, "batch %d: distance %r with the original row order, %r after permuting (%s) the rows of every batch" % (
                        i, a["distance"], b["distance"], how), **base)
                    return
                if a["state"] != b["state"]:
                    if params["detect_batch"] == 3:
                        ctx.violation("C18/%s/decision" % name, "detect_batch=3, batch %d: %r with the original row order, %r after permuting (%s)" % (i, a["state"], b["state"], how), **base)
                        return
                    parted = True  # detect_batch 2: the references differ from here on
                    break
            else:
                k_ = zoo.obs_equal(a, b, tol=1e-12)
                if k_ is not None:
                    ctx.violation("C18/%s/%s" % (name, k_), "batch %d: %s differs after permuting (%s) the rows of every batch: %r vs %r" % (
                        i, k_, how, str(a[k_])[:200], str(b[k_])[:200]), **base)
                    return
        if name in ("HDDDM", "CDBD") and params["detect_batch"] == 3 and not parted:
            ctx.count("db3_full_traces")
    if drift:
        ctx.count("histories_with_drift:" + name)
    ctx.nontrivial = drift
    ctx.sample = {"detector": name, "params": params, "batch_sizes": [len(b) for b in batches], "drifts": sum(o["state"] == "drift" for o in orig)}
    ctx.digest = "%s-%s-%s" % (name, sorted((a, str(b)) for a, b in params.items()), case["seed"])
