"""C01 - lifecycle contract of all 15 detectors: state domain, counters (total / since-reset with the documented
restart table), warm-up (no warning or drift before the documented minimum amount of data of the epoch),
retraining_recs on drift and its clearing.

Monitors: icontract postconditions on `update` (attached to harness-side subclasses; OLD counters snapshot)
for the domain / monotonicity part, and a per-detector lifecycle automaton kept by the harness that knows,
from the inputs alone, what the counters must be and the first position of the epoch at which a non-None
state is allowed."""
import math
import warnings

import icontract
import numpy as np

from .. import gen, rngtap, zoo

ID = "C01"
LEVEL = "exploration"
ANCHOR_FILES = ["menelaus/detector.py", "menelaus/change_detection/adwin.py", "menelaus/change_detection/cusum.py",
                "menelaus/change_detection/page_hinkley.py", "menelaus/concept_drift/ddm.py", "menelaus/concept_drift/eddm.py",
                "menelaus/concept_drift/stepd.py", "menelaus/concept_drift/lfr.py", "menelaus/concept_drift/md3.py",
                "menelaus/data_drift/kdq_tree.py", "menelaus/data_drift/histogram_density_method.py", "menelaus/data_drift/nndvi.py",
                "menelaus/data_drift/pca_cd.py"]
RULE = (
    "one case per (detector, parameter draw from hostile and moderate sets, generated history built to drift many times, also back to "
    "back and inside warm-up); every accepted update is followed by the icontract postcondition (state domain, 0 <= since-reset <= total, "
    "total never decreases) and by the lifecycle automaton: total == accepted updates (+ proxy batches of HDDDM/CDBD detect_batch=1), "
    "since-reset advances by one unless a restart is due per the property's table, no non-None state before the documented minimum of the "
    "epoch, retraining_recs on drift = [start <= end == index of the current sample] and not carried into the next epoch.  MD3 is driven "
    "through its protocol.  Non-trivial = a history with at least one drift followed by further updates; distinct = (detector, parameters, "
    "input digest)."
)
ASSUMPTIONS = [
    "reset() is never called by the harness (the property is about the automatic restart)",
    "ADWIN's window width is tracked from the public retraining_recs (width after a cut = end - start + 1, +1 per update otherwise)",
    "batch detectors other than KdqTreeBatch are given their reference through set_reference first, as documented",
]


class PostBroken(Exception):
    pass


def _old_counters(self):
    return zoo.counters(self)


def _post_update(self, OLD):
    _post_update.evals += 1
    tot, since = zoo.counters(self)
    ok = self.drift_state in (None, "warning", "drift") and 0 <= since <= tot and tot >= OLD.c[0]
    if not ok:
        _post_update.why = "drift_state=%r total=%r since_reset=%r (total before the call %r)" % (self.drift_state, tot, since, OLD.c[0])
    return ok


_post_update.evals = 0
_post_update.why = ""
_MON = {}


def monitored(name):
    if name not in _MON:
        cls = zoo.CLS[name]
        upd = icontract.snapshot(_old_counters, name="c")(icontract.ensure(_post_update, error=PostBroken)(cls.update))
        _MON[name] = type(name + "Mon", (cls,), {"update": upd})
    return _MON[name]


def cases(tier, seed):
    n = 40 if tier == "quick" else 1200
    out = []
    for name in zoo.ALL:
        cost = {"PCACD": 6, "KdqTreeStreaming": 3, "LinearFourRates": 3, "KdqTreeBatch": 3, "HDDDM": 2, "CDBD": 2, "NNDVI": 2}.get(name, 1)
        for i in range(n if cost < 4 else max(12, n // 2)):
            out.append({"id": "%s/%d" % (name, i), "det": name, "seed": [seed, 1, i], "cost": cost})
    for i in range(n):
        out.append({"id": "MD3/%d" % i, "det": "MD3", "seed": [seed, 1, i], "cost": 1})
    # two detectors of one class alive at the same time (class-level state would couple them)
    for name in zoo.ALL:
        for i in range(6 if tier == "quick" else 60):
            out.append({"id": "pair/%s/%d" % (name, i), "det": name, "kind": "pair", "seed": [seed, 101, i], "cost": 3})
    if tier == "thorough":
        # extra workload: the repository's own suite with the domain / counter / tree contracts attached to the real classes
        out.append({"id": "repo_suite_under_contracts", "det": "SUITE", "seed": [seed], "cost": 200})
    return out


def targets(tier):
    k = 1 if tier == "quick" else 10
    t = {"updates": 60000 * k, "contract_evaluations": 60000 * k, "warmup_steps_observed": 10000 * k, "recs_on_drift_checked": 300 * k}
    for name in zoo.ALL:
        t["drifts:" + name] = (8 if name == "PCACD" else 20) * k
        t["histories_3plus_epochs:" + name] = (2 if name == "PCACD" else 5) * k
    t["drifts:MD3"] = 10 * k
    t["interleaved_pairs"] = 60 * k
    t["interleaved_updates_compared"] = 8000 * k
    return t


def restart_value(name, params):
    if name == "PCACD":
        return 0
    if name in ("HDDDM", "CDBD") and params["detect_batch"] == 1:
        return 2
    return 1


class Automaton:
    """lifecycle bookkeeping from the inputs alone"""

    def __init__(self, name, params):
        self.name, self.p = name, params
        self.total = 0
        self.since = 0
        self.prev_state = None
        self.epoch_pos = 0       # accepted inputs of the current epoch (restarts at the update after a drift)
        self.epoch_no = 0
        self.errors = 0          # EDDM: errors seen in the epoch
        self.W = 0               # ADWIN: window width
        self.have_ref = False
        self.drifts = 0

    def set_reference_called(self):
        # HDDDM / CDBD detect_batch = 1 count the proxy batch split off the reference
        self.have_ref = True
        if self.name in ("HDDDM", "CDBD") and self.p["detect_batch"] == 1:
            self.total += 1
            self.since = 1
        else:
            self.since = 0
        self.epoch_pos = 0

    def step(self, item):
        """advance for one accepted update; returns (expected total, expected since, may_alarm: bool)"""
        name, p = self.name, self.p
        restart = (self.prev_state == "drift") or (name in ("ADWIN", "ADWINAccuracy") and self.prev_state is not None)
        self.total += 1
        if restart:
            self.epoch_no += 1
            self.epoch_pos = 0
            self.errors = 0
            self.since = restart_value(name, p)
            if name in ("HDDDM", "CDBD") and p["detect_batch"] == 1:
                self.total += 1
        else:
            self.since += 1
        self.epoch_pos += 1
        if name == "KdqTreeStreaming" and self.epoch_pos == p["window_size"]:
            self.since = 0
        if name == "KdqTreeBatch" and not self.have_ref:
            self.have_ref = True
            self.since = 0
            return self.total, self.since, False
        if name == "PCACD" and restart:
            self.epoch_pos = 0  # the sample that triggers the rebuild is discarded
        # ---- warm-up: may a non-None state be reported at this position?
        may = True
        s = self.since
        if name in ("CUSUM", "PageHinkley"):
            may = s > p["burn_in"]
        elif name == "DDM":
            may = s >= p["n_threshold"]
        elif name == "EDDM":
            if item[0] != item[1]:
                self.errors += 1
            may = self.errors >= p["n_threshold"]
        elif name == "STEPD":
            may = s >= 2 * p["window_size"]
        elif name == "LinearFourRates":
            may = s > p["burn_in"] and s % p["subsample"] == 0
        elif name in ("ADWIN", "ADWINAccuracy"):
            self.W += 1
            may = self.total % p["new_sample_thresh"] == 0 and self.W > p["window_size_thresh"]
        elif name == "KdqTreeStreaming":
            w = p["window_size"]
            may = self.epoch_pos >= 2 * w + math.floor(p["persistence"] * w)
        elif name in ("HDDDM", "CDBD"):
            may = s >= max(2, p["detect_batch"])
        elif name == "PCACD":
            w = p["window_size"]
            may = s > (2 * w if self.epoch_no == 0 else w)
        return self.total, self.since, may

    def after(self, state, recs):
        self.prev_state = state
        if state == "drift":
            self.drifts += 1
        if self.name in ("ADWIN", "ADWINAccuracy") and state == "drift" and recs and recs[0] is not None:
            self.W = recs[1] - recs[0] + 1


def run_case(case, ctx):
    warnings.simplefilter("ignore")
    name = case["det"]
    if name == "SUITE":
        return run_suite(ctx)
    if name == "MD3":
        return run_md3(case, ctx)
    if case.get("kind") == "pair":
        return run_pair(case, ctx)
    rng = gen.rng_for(case["seed"], name)
    if "literal" in case:
        params = case["literal"]["params"]
        items = case["literal"]["items"]
    else:
        params = zoo.draw_params(name, rng)
        items = zoo.workload(name, rng, params)
        if rng.random() < 0.35 and zoo.kind(name) == "x1":
            # hostile: large alternating jumps every few samples, so that alarms come as early as the guards allow
            n = len(items)
            items = [float(v) + 40.0 * ((i // int(rng.integers(2, 9))) % 2) for i, v in enumerate(items)]
    det = monitored(name)(**params)
    au = Automaton(name, params)
    k = zoo.kind(name)
    drift_at = None   # index (total - 1) at which the last drift was reported
    epochs = 0
    updates_after_drift = 0
    e0 = _post_update.evals
    shown = [it if not hasattr(it, "tolist") else it.tolist() for it in items[:400]] if k in ("x1", "y") else "omitted"
    for i, item in enumerate(items):
        np.random.seed(rngtap.seed_for(case.get("seed_key", case["id"]), i))
        base = dict(detector=name, params=params, step=i, items=shown if k in ("x1", "y") else "seeded workload (case seed)")
        if k == "batch" and i == 0 and name != "KdqTreeBatch":
            det.set_reference(np.asarray(item).copy())
            au.set_reference_called()
            tot, since = zoo.counters(det)
            if (tot, since) != (au.total, au.since):
                ctx.violation("C01/%s/counters_after_set_reference" % name, "after set_reference: total/since-reset %r/%r, expected %d/%d" % (tot, since, au.total, au.since), **base)
                return
            continue
        try:
            zoo.feed(det, name, item)
        except PostBroken:
            ctx.violation("C01/%s/domain" % name, "update %d: postcondition broken: %s" % (i, _post_update.why), **base)
            return
        except ValueError as e:
            if name == "CUSUM" and "Standard deviation is 0" in str(e):
                ctx.count("cusum_zero_sd_ended")
                break
            raise
        ctx.count("updates")
        exp_tot, exp_since, may = au.step(item)
        tot, since = zoo.counters(det)
        st = det.drift_state
        rc = zoo.recs(det)
        if tot != exp_tot:
            ctx.violation("C01/%s/total_counter" % name, "update %d: total counter %r, %d inputs were processed (expected %d)" % (i, tot, i + 1, exp_tot), **base)
            return
        if since != exp_since:
            ctx.violation("C01/%s/since_reset_counter" % name,
                          "update %d (previous state %r, epoch position %d): since-reset counter %r, expected %d" % (i, au.prev_state, au.epoch_pos, since, exp_since), **base)
            return
        if not may:
            ctx.count("warmup_steps_observed")
            if st is not None:
                ctx.violation("C01/%s/warmup" % name, "update %d: %r reported at since-reset %d / epoch position %d, before the documented minimum amount of data "
                              "(parameters %r)" % (i, st, since, au.epoch_pos, params), **base)
                return
        if drift_at is not None and updates_after_drift == 0:
            # the update that follows a reported drift: the old recommendation must be gone
            if rc is not None:
                stale = [v for v in rc if v is not None and v <= drift_at and not (name in ("ADWIN", "ADWINAccuracy"))]
                if name in ("ADWIN", "ADWINAccuracy"):
                    stale = [] if (rc == [None, None] or rc[1] == tot - 1) else [rc]
                if stale:
                    ctx.violation("C01/%s/recs_not_cleared" % name, "update %d follows a drift at index %d, retraining_recs still shows %r" % (i, drift_at, rc), **base)
                    return
        if drift_at is not None:
            updates_after_drift += 1
        if st == "drift":
            ctx.count("drifts:" + name)
            epochs += 1
            if rc is not None:
                ctx.count("recs_on_drift_checked")
                if rc[0] is None or rc[1] is None or not (rc[0] <= rc[1] == tot - 1):
                    ctx.violation("C01/%s/recs_on_drift" % name, "update %d reports drift with retraining_recs %r; expected [start <= end == %d]" % (i, rc, tot - 1), **base)
                    return
            drift_at = tot - 1
            updates_after_drift = 0
        au.after(st, rc)
    ctx.count("contract_evaluations", _post_update.evals - e0)
    if epochs >= 2:
        ctx.count("histories_3plus_epochs:" + name)
    ctx.nontrivial = epochs >= 1 and updates_after_drift >= 1
    ctx.sample = {"detector": name, "params": params, "inputs": len(items), "drifts": epochs}
    ctx.digest = "%s-%s-%s" % (name, sorted((a, str(b)) for a, b in params.items()), case["seed"])


def run_pair(case, ctx):
    """two detectors of the same class, each with its own parameters and inputs, updated in turn: every output of each (state, counters,
    recommendations, published statistics) must equal what it shows when it runs alone under the same per-call numpy seeds"""
    name = case["det"]
    rng = gen.rng_for(case["seed"], name, "pair")
    key = case.get("seed_key", case["id"])
    specs = []
    for _ in range(2):
        params = zoo.draw_params(name, rng)
        items = zoo.workload(name, rng, params)[:260]
        specs.append((params, items))

    def step(det, j, i, item):
        np.random.seed(rngtap.seed_for(key, j, i))
        zoo.feed(det, name, item, first=(i == 0))
        o = zoo.observe(det, name)
        o["counters"] = list(zoo.counters(det))
        o["recs"] = zoo.recs(det)
        return o

    solo = []
    for j, (params, items) in enumerate(specs):
        det = zoo.make(name, params)
        tr = []
        try:
            for i, it in enumerate(items):
                tr.append(step(det, j, i, it))
        except ValueError as e:
            if not (name == "CUSUM" and "Standard deviation is 0" in str(e)):
                raise
        solo.append(tr)
    live = [zoo.make(name, p) for p, _ in specs]
    pos = [0, 0]
    chunk = int(rng.choice([1, 1, 3, 17]))
    drifts = 0
    while pos[0] < len(solo[0]) or pos[1] < len(solo[1]):
        for j in (0, 1):
            for _ in range(chunk):
                if pos[j] >= len(solo[j]):
                    break
                got = step(live[j], j, pos[j], specs[j][1][pos[j]])
                exp = solo[j][pos[j]]
                ctx.count("interleaved_updates_compared")
                bad = zoo.obs_equal(got, exp) if set(got) == set(exp) else "keys"
                if bad is not None:
                    ctx.violation("C01/%s/instances_not_independent" % name, "detector %d of two interleaved %s detectors, call %d: %s = %r, the same detector "
                                  "running alone shows %r" % (j, name, pos[j], bad, got.get(bad), exp.get(bad)), detector=name,
                                  params=[specs[0][0], specs[1][0]], chunk=chunk, step=pos[j])
                    return
                drifts += got.get("state") == "drift"
                pos[j] += 1
    ctx.count("interleaved_pairs")
    ctx.nontrivial = drifts >= 1
    ctx.sample = {"kind": "two interleaved detectors", "detector": name, "params": [specs[0][0], specs[1][0]], "chunk": chunk, "drifts": drifts}
    ctx.digest = "pair-%s-%s" % (name, case["seed"])


def run_md3(case, ctx):
    """MD3 through its protocol (driver of props/c19.py): counters count accepted updates, restart after a confirmed drift"""
    from . import c19

    rng = gen.rng_for(case["seed"], "MD3")
    k = int(rng.choice([2, 3]))
    cfg = dict(N=int(rng.integers(max(4, k), 16)), k=k, oracle_len=int(rng.integers(k, 6)), sensitivity=float(rng.choice([0.0, 0.5, 1.0, 2.0])),
               noise=float(rng.choice([0.1, 0.3, 0.45])), ref_seed=int(rng.integers(0, 10 ** 6)))
    r = c19.build(cfg, ctx, dict(cfg=cfg))
    if r is None:
        return
    det, m = r
    total = since = 0
    prev = None
    drifts = 0
    for i in range(int(rng.integers(60, 200))):
        if det.waiting_for_oracle:
            c = "L-" if rng.random() < 0.6 else "L+"
            op, arg, lab = c19.call_args(c, m)
            det.give_oracle_label(arg)
            m.oracle.append(lab)
            if len(m.oracle) == cfg["oracle_len"]:
                m.oracle = []
            st = det.drift_state
            if st == "drift" and prev != "drift":
                drifts += 1
                ctx.count("drifts:MD3")
            prev = st
            continue
        c = "U1" if rng.random() < 0.5 else "U0"
        op, arg, _ = c19.call_args(c, m)
        det.update(arg)
        ctx.count("updates")
        total += 1
        since = 1 if prev == "drift" else since + 1
        st = det.drift_state
        if st not in (None, "warning", "drift") or (det.total_updates, det.updates_since_reset) != (total, since):
            ctx.violation("C01/MD3/counters", "update %d: state %r, total/since-reset %r/%r, expected %d/%d" % (
                i, st, det.total_updates, det.updates_since_reset, total, since), cfg=cfg, step=i)
            return
        prev = st
    ctx.nontrivial = drifts >= 1
    ctx.sample = {"detector": "MD3", "cfg": cfg, "confirmed_drifts": drifts}
    ctx.digest = "MD3-%s" % sorted(cfg.items())


def run_suite(ctx):
    """the repository's test-suite as a workload, judged by contracts on the real classes (mon/pytest_contracts.py)"""
    import json
    import os
    import subprocess
    import sys
    import tempfile

    from ..core import REPO

    with tempfile.TemporaryDirectory() as d:
        env = dict(os.environ, VERIF_CONTRACT_EVALS=os.path.join(d, "evals.jsonl"), COVERAGE_FILE=os.path.join(d, ".coverage"))
        p = subprocess.run([sys.executable, "-m", "pytest", "-q", "-p", "no:cacheprovider", "-p", "mon.pytest_contracts", "-o", "addopts=",
                            "--timeout=900", "tests/menelaus"], cwd=REPO, env=env, capture_output=True, text=True, timeout=1500)
        ev = {}
        if os.path.exists(env["VERIF_CONTRACT_EVALS"]):
            for line in open(env["VERIF_CONTRACT_EVALS"]):
                for k_, v in json.loads(line).items():
                    ev[k_] = ev.get(k_, 0) + v
    ctx.count("suite_contract_evaluations", sum(ev.values()))
    out = p.stdout + p.stderr
    if "ContractBroken" in out:
        i = out.index("ContractBroken")
        ctx.violation("C01/repo_suite_contract_broken", "a domain / counter / tree contract failed while the repository's own tests ran: ...%s" % out[max(0, i - 600): i + 300])
    elif p.returncode != 0:
        ctx.count("suite_failures_without_contract_involvement")
    ctx.nontrivial = sum(ev.values()) > 1000
    ctx.sample = {"detector": "repository test-suite under contracts", "contract_evaluations": ev, "pytest_tail": out.strip().splitlines()[-1:]}
    ctx.digest = "suite"
