"""C13 - election rules: complete enumeration on the real objects, judged by closed-form
rules (stateless elections) and by an independent remaining-wait model (ConfirmedElection,
explicit-state exploration of the joint implementation/model state graph)."""
import copy
import itertools
import pickle

import icontract
import numpy as np

from menelaus.ensemble import election as E

ID = "C13"
LEVEL = "exploration"
ANCHOR_FILES = ["menelaus/ensemble/election.py"]
RULE = (
    "one case per (election kind, number of members n, parameter values): all vectors in "
    "{None,warning,drift}^n are applied to the real election object and compared with the voting "
    "rule; monotonicity by flipping every non-drift entry to drift.  ConfirmedElection: breadth-first "
    "exploration of the joint (implementation wait counters, remaining-wait model) state graph, every "
    "vector from every reachable state, plus long random vote sequences for larger n.  A case is "
    "non-trivial when both verdict values (drift and not-drift) were observed in it; distinct = "
    "distinct (kind, n, parameters)."
)
ASSUMPTIONS = [
    "members are observed only through their drift_state attribute (stub members with that attribute); the states are handed over as "
    "source literals, as equal-but-distinct str objects (members restored by pickle) and as numpy.str_",
    "parameters range over 0..n+1 (approvals and confirmations 0 only where their sum is >= 1)",
]
S = (None, "warning", "drift")


class Stub:
    __slots__ = ("drift_state",)

    def __init__(self, st):
        self.drift_state = st


def fresh(s):
    """an equal but distinct string object: what a member restored by pickle, or a state parsed from a message, carries"""
    return None if s is None else "".join(list(s))


class PostBroken(Exception):
    pass


def _range_ok(result):
    return result in ("drift", None)


def _range3_ok(result):
    return result in ("drift", "warning", None)


def _counters_ok(self, result):
    c = self.wait_period_counters
    return c is not None and all(0 <= x <= self.wait_time for x in c)


_wrapped = {}


def wrapped_classes():
    """icontract postconditions attached from the harness (subclasses; the repo is not edited)."""
    if _wrapped:
        return _wrapped
    for name in ("SimpleMajorityElection", "MinimumApprovalElection", "OrderedApprovalElection"):
        base = getattr(E, name)
        call = icontract.ensure(_range_ok, error=PostBroken)(base.__call__)
        _wrapped[name] = type(name + "Mon", (base,), {"__call__": call})
    base = E.ConfirmedElection
    call = icontract.ensure(_range3_ok, error=PostBroken)(
        icontract.ensure(_counters_ok, error=PostBroken)(base.__call__)
    )
    _wrapped["ConfirmedElection"] = type("ConfirmedElectionMon", (base,), {"__call__": call})
    return _wrapped


def cases(tier, seed):
    nmax = 6 if tier == "quick" else 7
    out = []
    for n in range(0, nmax + 1):
        out.append({"id": "maj/n%d" % n, "kind": "maj", "n": n, "cost": 3 ** n})
        for a in range(1, n + 2):
            out.append({"id": "min/n%d/a%d" % (n, a), "kind": "min", "n": n, "a": a, "cost": 3 ** n})
        for a in range(0, n + 2):
            for c in range(0, n + 2):
                if a + c == 0:
                    continue
                out.append({"id": "ord/n%d/a%d/c%d" % (n, a, c), "kind": "ord", "n": n, "a": a, "c": c, "cost": 3 ** n})
    # larger ensembles: the stateless rules depend on the number of drifting members only, so every count 0..n is applied (a few
    # placements each, warnings mixed in) for every size up to nbig, with whole and half-integer thresholds
    nbig = 40 if tier == "quick" else 120
    for n in range(nmax + 1, nbig + 1):
        out.append({"id": "counts/n%d" % n, "kind": "counts", "n": n, "seed": [seed, 1313, n], "cost": n * n / 20.0})
    # thresholds that are not whole numbers ("at least a" with a = n / 2 for an odd ensemble)
    for n in range(0, 6):
        for a2 in range(1, 2 * n + 4, 2):
            out.append({"id": "min/n%d/a%g" % (n, a2 / 2), "kind": "min", "n": n, "a": a2 / 2, "cost": 3 ** n})
            out.append({"id": "ord/n%d/a%g/c1" % (n, a2 / 2), "kind": "ord", "n": n, "a": a2 / 2, "c": 1, "cost": 3 ** n})
            out.append({"id": "ord/n%d/a1/c%g" % (n, a2 / 2), "kind": "ord", "n": n, "a": 1, "c": a2 / 2, "cost": 3 ** n})
    cn = 4 if tier == "quick" else 5
    wmax = 3 if tier == "quick" else 5
    for n in range(1, cn + 1):
        for sens in range(1, n + 2):
            for wt in range(0, wmax + 1):
                out.append({"id": "conf/n%d/s%d/w%d" % (n, sens, wt), "kind": "conf", "n": n,
                            "sens": sens, "wt": wt, "cost": (9 * (wt + 1)) ** n})
    for n in range(1, 4):
        for s2 in range(1, 2 * n + 2, 2):
            out.append({"id": "conf/n%d/s%g/w2" % (n, s2 / 2), "kind": "conf", "n": n, "sens": s2 / 2, "wt": 2, "cost": 27 ** n})
    # one election object applied to lists of different lengths (the rule is about every list, whatever was voted on before)
    for kind in ("maj", "min", "ord"):
        for i in range(12 if tier == "quick" else 60):
            out.append({"id": "shared/%s/%d" % (kind, i), "kind": "shared", "rule": kind, "seed": [seed, 131, i], "cost": 200})
    # waits far longer than any enumerated one (the per-member counters must carry them)
    for i in range(4 if tier == "quick" else 40):
        out.append({"id": "conflong/%d" % i, "kind": "confrand", "long": True, "seed": [seed, 1300, i], "cost": 3000})
    # long random sequences for larger ensembles (beyond the explored graphs)
    nr = 40 if tier == "quick" else 3000
    for i in range(nr):
        out.append({"id": "confrand/%d" % i, "kind": "confrand", "seed": [seed, 13, i], "cost": 2000})
    return out


def targets(tier):
    return {"stateless_evaluations": 10000, "confirmed_transitions": 10000, "confirmed_joint_states": 300,
            "monotonicity_flips": 3000, "contract_evaluations": 20000, "confirmed_drift": 100,
            "confirmed_warning": 100, "random_sequence_steps": 5000, "shared_instance_calls": 5000,
            "evaluations_with_equal_but_distinct_state_objects": 20000, "count_profile_evaluations": 20000}


def expected_stateless(case, k, n):
    if case["kind"] == "maj":
        return 2 * k > n
    if case["kind"] == "min":
        return k >= case["a"]
    return k >= case["a"] + case["c"]


def make(case):
    W = wrapped_classes()
    if case["kind"] == "maj":
        return W["SimpleMajorityElection"]()
    if case["kind"] == "min":
        return W["MinimumApprovalElection"](case["a"])
    return W["OrderedApprovalElection"](case["a"], case["c"])


def model_step(rem, vec, sens, wt):
    """remaining-wait form: None = idle, r = number of further voter calls left."""
    rem = list(rem)
    voters = warn = 0
    for i, s in enumerate(vec):
        if rem[i] is None:
            if s == "drift":
                voters += 1
                rem[i] = wt if wt > 0 else None
            elif s == "warning":
                warn += 1
        else:
            if s == "warning":
                warn += 1
            else:
                voters += 1
                rem[i] -= 1
                if rem[i] == 0:
                    rem[i] = None
    ret = "drift" if voters >= sens else ("warning" if voters + warn >= sens else None)
    return tuple(rem), ret


def run_case(case, ctx):
    kind = case["kind"]
    seen = set()
    if kind in ("maj", "min", "ord"):
        n = case["n"]
        el = make(case)
        for vec in itertools.product(S, repeat=n):
            dets = [Stub(s) for s in vec]
            k = sum(s == "drift" for s in vec)
            # both container kinds the library itself uses: list and dict values view
            for form in ("list", "dict_values", "restored_members", "numpy_strings"):
                if form == "restored_members":
                    arg = pickle.loads(pickle.dumps(dets)) if n % 2 else [Stub(fresh(s)) for s in vec]
                elif form == "numpy_strings":
                    arg = [Stub(None if s is None else np.str_(s)) for s in vec]
                else:
                    arg = dets if form == "list" else {i: d for i, d in enumerate(dets)}.values()
                try:
                    r = el(arg)
                except PostBroken as e:
                    ctx.violation("C13/%s/range" % kind, "election returned a value outside {drift, None}: %s" % e,
                                  votes=vec, params=case)
                    continue
                ctx.count("stateless_evaluations")
                ctx.count("contract_evaluations")
                if form in ("restored_members", "numpy_strings") and any(m.drift_state == "drift" and m.drift_state is not S[2] for m in arg):
                    ctx.count("evaluations_with_equal_but_distinct_state_objects")
                exp = "drift" if expected_stateless(case, k, n) else None
                seen.add(r)
                if r != exp:
                    ctx.violation("C13/%s/verdict" % kind, "votes %s (%s): returned %r, rule says %r" % (vec, form, r, exp),
                                  votes=vec, params=case, got=r, expected=exp)
            # monotonicity on the real object
            base = el(dets)
            if base == "drift":
                for i, s in enumerate(vec):
                    if s != "drift":
                        v2 = list(vec)
                        v2[i] = "drift"
                        r2 = el([Stub(x) for x in v2])
                        ctx.count("monotonicity_flips")
                        if r2 != "drift":
                            ctx.violation("C13/%s/monotone" % kind,
                                          "turning member %d to drift retracted the verdict: %s -> %s" % (i, vec, v2),
                                          votes=vec, params=case)
        ctx.nontrivial = len(seen) >= 2
        ctx.sample = {"kind": kind, "params": {k_: case[k_] for k_ in ("n", "a", "c") if k_ in case},
                      "vectors_applied": 3 ** n, "verdicts_seen": sorted(map(str, seen))}
        return
    if kind == "counts":
        n = case["n"]
        rng = np.random.default_rng(case["seed"])
        W = wrapped_classes()
        rules = [("maj", {"kind": "maj"}, W["SimpleMajorityElection"]())]
        for a in sorted({1, n // 2, (n + 1) // 2, n // 2 + 1, n, n + 1, n / 2, n / 3}):
            if a > 0:
                rules.append(("min", {"kind": "min", "a": a}, W["MinimumApprovalElection"](a)))
        for a, c in ((1, n // 2), (n // 2, 1), (n // 3, n // 3), (n / 2, 0), (1, n / 2 - 0.5)):
            if a + c > 0 and a >= 0 and c >= 0:
                rules.append(("ord", {"kind": "ord", "a": a, "c": c}, W["OrderedApprovalElection"](a, c)))
        for k in range(n + 1):
            for rep in range(3):
                vec = ["drift"] * k + [None if rng.random() < 0.6 else "warning" for _ in range(n - k)]
                if rep == 1:
                    vec = vec[::-1]
                elif rep == 2:
                    vec = [vec[j] for j in rng.permutation(n)]
                for rname, params, el in rules:
                    try:
                        r = el([Stub(fresh(s) if (j + k) % 5 == 0 else s) for j, s in enumerate(vec)])
                    except PostBroken as e:
                        ctx.violation("C13/%s/range" % rname, "election returned a value outside {drift, None}: %s" % e, params=params, n=n, drifting=k)
                        return
                    ctx.count("count_profile_evaluations")
                    exp = "drift" if expected_stateless(params, k, n) else None
                    seen.add(r)
                    if r != exp:
                        ctx.violation("C13/%s/verdict_large_ensemble" % rname, "%d members, %d of them drifting (%s): returned %r, rule says %r" % (
                            n, k, params, r, exp), params=params, n=n, drifting=k, votes=vec)
                        return
        ctx.nontrivial = len(seen) >= 2
        ctx.digest = "counts-%d" % n
        ctx.sample = {"kind": "every drift count in a larger ensemble", "n": n, "rules": [p_ for _, p_, _ in rules]}
        return
    if kind == "shared":
        rng = np.random.default_rng(case["seed"])
        rule = case["rule"]
        params = {"kind": rule, "a": int(rng.integers(1, 4)), "c": int(rng.integers(0, 3))}
        el = make(params)
        for step in range(400):
            n = int(rng.integers(0, 7))
            vec = tuple(S[j] for j in rng.integers(0, 3, size=n))
            k = sum(s == "drift" for s in vec)
            exp = "drift" if expected_stateless(params, k, n) else None
            r = el([Stub(fresh(s) if (step + j) % 2 else s) for j, s in enumerate(vec)])
            ctx.count("shared_instance_calls")
            seen.add(r)
            if r != exp:
                ctx.violation("C13/%s/verdict_shared_instance" % rule, "the same election object, call %d on %d members with votes %s: returned %r, rule says %r" % (
                    step, n, vec, r, exp), params=params, votes=vec)
                return
        ctx.nontrivial = len(seen) >= 2
        ctx.digest = "shared-%s-%s" % (rule, case["seed"])
        ctx.sample = {"kind": "one election object over lists of varying length", "rule": rule, "params": params, "calls": 400}
        return
    if kind == "conf":
        n, sens, wt = case["n"], case["sens"], case["wt"]
        W = wrapped_classes()
        e0 = W["ConfirmedElection"](sens, wt)
        start = tuple([None] * n)
        visited = {(start, tuple([0] * n))}
        frontier = [(start, e0)]
        first = True
        example = None
        while frontier:
            rem, e = frontier.pop()
            for vec in itertools.product(S, repeat=n):
                e2 = copy.deepcopy(e)
                try:
                    r = e2([Stub(fresh(s) if (j + len(visited)) % 2 else s) for j, s in enumerate(vec)])
                except PostBroken as ex:
                    ctx.violation("C13/confirmed/counter_bound_or_range",
                                  "postcondition failed (counters <= wait_time, verdict domain): %s" % ex,
                                  params=case, model_state=rem, votes=vec,
                                  counters=getattr(e2, "wait_period_counters", None))
                    continue
                ctx.count("contract_evaluations", 2)
                rem2, exp = model_step(rem, vec, sens, wt)
                ctx.count("confirmed_transitions")
                seen.add(r)
                if r == "drift":
                    ctx.count("confirmed_drift")
                elif r == "warning":
                    ctx.count("confirmed_warning")
                if r != exp:
                    ctx.violation("C13/confirmed/verdict",
                                  "n=%d sens=%d wait=%d model state %s votes %s: returned %r, rule says %r" % (
                                      n, sens, wt, rem, vec, r, exp),
                                  params=case, model_state=rem, votes=vec, got=r, expected=exp)
                    continue  # do not explore beyond a diverged state
                key = (rem2, tuple(e2.wait_period_counters))
                if example is None and any(x is not None for x in rem2):
                    example = {"votes": vec, "verdict": r, "model_remaining": rem2,
                               "impl_counters": list(e2.wait_period_counters)}
                if key not in visited:
                    visited.add(key)
                    frontier.append((rem2, e2))
        ctx.count("confirmed_joint_states", len(visited))
        ctx.cmax("joint_states_one_graph", len(visited))
        ctx.nontrivial = len(seen) >= 2
        ctx.sample = {"kind": "ConfirmedElection graph", "n": n, "sensitivity": sens, "wait_time": wt,
                      "joint_states": len(visited), "example_transition": example}
        return
    if kind == "confrand":
        rng = np.random.default_rng(case["seed"])
        n = int(rng.integers(4, 9))
        sens = int(rng.integers(1, n + 2))
        if rng.random() < 0.3:
            sens = sens - 0.5  # "voters reach sensitivity" for a sensitivity that is not a whole number
        wt = int(rng.integers(0, 7))
        if case.get("long"):
            n = int(rng.integers(2, 4))
            sens = int(rng.integers(1, n + 1))
            wt = int(rng.choice([200, 255, 256, 300, 1000]))
            ctx.count("sequences_with_waits_of_hundreds_of_calls")
        W = wrapped_classes()
        e = W["ConfirmedElection"](sens, wt)
        rem = tuple([None] * n)
        p = rng.dirichlet([1.5, 1, 1])
        steps = 300
        if case.get("long"):
            p = np.array([0.97, 0.01, 0.02])  # drifts are rare events, so that waits run their full length
            steps = 2500
        for t in range(steps):
            vec = tuple(S[j] for j in rng.choice(3, size=n, p=p))
            try:
                r = e([Stub(fresh(s) if (j + t) % 2 else s) for j, s in enumerate(vec)])
            except PostBroken as ex:
                ctx.violation("C13/confirmed/counter_bound_or_range", str(ex), params=[n, sens, wt], step=t, votes=vec)
                break
            ctx.count("contract_evaluations", 2)
            rem, exp = model_step(rem, vec, sens, wt)
            ctx.count("random_sequence_steps")
            seen.add(r)
            if r != exp:
                ctx.violation("C13/confirmed/verdict",
                              "random sequence n=%d sens=%d wait=%d step %d: returned %r, rule says %r" % (n, sens, wt, t, r, exp),
                              params=[n, sens, wt], step=t, votes=vec)
                break
        ctx.nontrivial = len(seen) >= 2
        ctx.digest = "confrand-%d-%d-%d-%s" % (n, sens, wt, case["seed"])
        return
    raise ValueError(kind)


def finalize(counters, tier, records):
    return {
        "exhaustive": True,
        "exhaustive_scope": "all vote vectors for n <= %d x all parameters <= n+1 (stateless); every reachable joint "
                            "state x every vector for n <= %d, wait_time <= %d (ConfirmedElection); random sequences "
                            "beyond that are sampled, not exhaustive" % ((6, 4, 3) if tier == "quick" else (7, 5, 5)),
        "states": int(counters.get("confirmed_joint_states", 0)),
        "transitions": int(counters.get("confirmed_transitions", 0)),
    }
