"""C14 - uniform input validation, harmless rejections, container independence (fault enumeration).

(a) acceptance table: from the history of *accepted* inputs (row rule of the base class, established width, established
    DataFrame names, univariate rule) every call is classified accept / ValueError and the real detector must agree;
(b) no-harm twin: the same history without the malformed call; after a rejection the total counter is unchanged and every
    later output is identical;
(c) container twins: equal values as scalar / list / ndarray (C, F, strided) / Series / DataFrame, mixed over time, give
    identical traces."""
import warnings

import numpy as np
import pandas as pd

from .. import gen, rngtap, zoo

ID = "C14"
LEVEL = "fault_enumeration"
ANCHOR_FILES = ["menelaus/detector.py", "menelaus/change_detection/adwin.py", "menelaus/change_detection/cusum.py",
                "menelaus/change_detection/page_hinkley.py", "menelaus/data_drift/cdbd.py", "menelaus/data_drift/histogram_density_method.py",
                "menelaus/data_drift/kdq_tree.py", "menelaus/data_drift/nndvi.py", "menelaus/data_drift/pca_cd.py"]
RULE = (
    "injection cases: one per (detector, parameters, valid history, kind of malformed call - wrong row count, wrong width, renamed "
    "columns, re-ordered columns, multi-column data to a univariate detector, several observations in y - and container of the "
    "offender); the malformed call is injected before each of up to 10 positions of the history (first, second, right after every "
    "drift, last, random others) in separate runs and judged against the acceptance table and the no-harm twin.  Container cases: the "
    "same values presented in every container type and in random mixes.  Table cases: every order of up to three container types of "
    "valid inputs followed by every kind of mismatching input.  Non-trivial = at least one injected fault was rejected at a position "
    "after which the detector still reported a drift; distinct = (detector, parameters, history digest, fault kind)."
)
ASSUMPTIONS = [
    "an input that differs from the intended stream but is valid given what has been accepted (a wide first input; a first named frame "
    "after arrays of the same width) is accepted by the specification and is not a fault",
    "every update performs its post-drift reset before it validates: a call rejected right after a drift may already have cleared "
    "drift_state / the epoch counter; the rejected call runs under the numpy seed of the next accepted call so both runs draw alike",
    "MD3 validates through its own one-row rule; its refused calls are covered call by call in C19",
]

UNIVARIATE = ("ADWIN", "CUSUM", "PageHinkley", "CDBD")
LABEL = zoo.STREAM_Y


def shape_of(name, X):
    """(rows, width, names) the detector's base class sees for input X"""
    batch = zoo.kind(name) == "batch"
    if isinstance(X, pd.DataFrame):
        return X.shape[0], X.shape[1], list(X.columns)
    a = np.array(X)
    if a.ndim <= 1:
        a = a.reshape(-1, 1) if batch else a.reshape(1, -1)
    return a.shape[0], a.shape[1], None


class Table:
    """acceptance table from the history of accepted inputs"""

    def __init__(self, name):
        self.name = name
        self.batch = zoo.kind(name) == "batch"
        self.width = None
        self.names = None
        self.by = None  # container kind that established the width

    def classify(self, X):
        """returns (accept: bool, rule that rejects or None)"""
        rows, width, names = shape_of(self.name, X)
        if self.name in UNIVARIATE and width != 1:
            return False, "univariate"
        if names is not None and self.names is not None and list(names) != list(self.names):
            return False, "names"
        if self.width is not None and width != self.width:
            return False, "width"
        if (self.batch and rows < 2) or (not self.batch and rows != 1):
            return False, "rows"
        return True, None

    def accept(self, X):
        rows, width, names = shape_of(self.name, X)
        if self.width is None:
            self.width = width
            self.by = "frame" if names is not None else "array"
        if names is not None and self.names is None:
            self.names = list(names)


def container(val, kind, names=None):
    a = np.array(val, dtype=float)
    if kind == "ndarray":
        return a.copy()
    if kind == "fortran":
        return np.asfortranarray(a)
    if kind == "view":
        big = np.zeros((a.shape[0] * 2, a.shape[1] * 2))
        big[::2, ::2] = a
        return big[::2, ::2]
    if kind == "list":
        return a.tolist()
    if kind == "frame":
        return pd.DataFrame(a.copy(), columns=names or ["c%d" % i for i in range(a.shape[1])])
    if kind == "flat_list":
        return a.ravel().tolist()
    if kind == "flat_array":
        return a.ravel().copy()
    if kind == "series":
        return pd.Series(a.ravel().copy())
    if kind == "scalar":
        return float(a.ravel()[0])
    if kind in ("uint8", "int32", "int64", "float32"):
        return a.astype(kind)
    if kind == "frame_int64":
        return pd.DataFrame(a.astype("int64"), columns=names or ["c%d" % i for i in range(a.shape[1])])
    raise ValueError(kind)


def cases(tier, seed):
    n = 22 if tier == "quick" else 200
    out = []
    for name in zoo.ALL:
        cost = {"PCACD": 5, "KdqTreeStreaming": 5, "LinearFourRates": 3, "KdqTreeBatch": 6}.get(name, 1)
        for i in range(n):
            out.append({"id": "inject/%s/%d" % (name, i), "kind": "inject", "det": name, "seed": [seed, 14, i], "cost": 4 * cost})
        for i in range(max(3, n // 2)):
            out.append({"id": "cont/%s/%d" % (name, i), "kind": "cont", "det": name, "seed": [seed, 140, i], "cost": cost})
        if name not in LABEL:
            out.append({"id": "table/%s" % name, "kind": "table", "det": name, "seed": [seed, 1400, 0], "cost": 2})
    return out


def targets(tier):
    k = 1 if tier == "quick" else 10
    return {"faults_injected": 1400 * k, "faults_rejected_no_harm_checked": 1200 * k, "faults_valid_by_table": 40 * k,
            "container_twin_runs": 300 * k, "table_sequences": 1500, "later_outputs_compared": 50000 * k,
            "rejections_right_after_drift": 50 * k}


def det_params(name, rng):
    p = zoo.draw_params(name, rng)
    if name == "PCACD":
        p["window_size"] = 20
    if name == "CUSUM" and p["target"] is None:
        p["burn_in"] = max(3, p["burn_in"])
    return p


def valid_history(name, rng, params, allow_1d=False, p1d=0.45):
    """list of (method, 2-d float array or (y_true, y_pred)); allow_1d: batch detectors may also get one-column data"""
    k = zoo.kind(name)
    if k == "y":
        items = zoo.workload(name, rng, params, length=int(rng.integers(40, 120)))
        return [("update", it) for it in items], None
    if k == "x1":
        items = zoo.workload(name, rng, params, length=int(rng.integers(40, 140)))
        lo = min(items)
        if name == "PageHinkley":
            items = [v - lo + 1 for v in items]
        return [("update", np.array([[v]])) for v in items], 1
    if k == "xd":
        d = int(rng.integers(2, 4))
        items = zoo.workload(name, rng, params, d=d, length=(6 * params["window_size"] + 10) if name == "PCACD" else None)
        return [("update", np.asarray(v).reshape(1, -1)) for v in items[:260]], d
    d = 1 if name == "CDBD" else int(rng.integers(2, 4))
    if allow_1d and rng.random() < p1d:
        d = 1
    items = zoo.workload(name, rng, params, d=d, length=int(rng.integers(8, 22)))
    calls = []
    for i, b in enumerate(items):
        calls.append(("set_reference" if (i == 0 and name != "KdqTreeBatch") else "update", np.asarray(b)))
    return calls, d


def classify_exc(e):
    """'ValueError' for a deliberate rejection raised inside menelaus, 'downstream:<type>' when the innermost frame is third-party
    code (the validator let the input through), else the exception type name"""
    import traceback as _tb

    frames = _tb.extract_tb(e.__traceback__)
    inner = "/menelaus/" in frames[-1].filename.replace("\\", "/")
    if not inner:
        return "downstream:" + type(e).__name__
    return type(e).__name__


def do_call(det, name, meth, arg):
    if zoo.kind(name) == "y":
        det.update(arg[0], arg[1])
    else:
        getattr(det, meth)(arg)


def run_history(name, params, calls, key, conv, inject=None, ctx=None):
    """runs the calls (conv turns the 2-d array of call j into the container to pass).  inject = (position, method, object):
    issued before call `position` under that call's seed.  returns (trace, info about the injected call)"""
    det = zoo.make(name, params)
    trace = []
    info = None
    for j, (meth, val) in enumerate(calls):
        objs_ = []
        if inject is not None and inject[0] == j:
            objs_ = list(inject[2]) if isinstance(inject[2], Chain) else [inject[2]] * (inject[3] if len(inject) > 3 else 1)
        for rep_, obj_ in enumerate(objs_):
            if info is not None and info[0] != "ValueError":
                break  # an earlier repetition was already accepted / fell over: that is the finding
            tot0 = zoo.counters(det)[0]
            st0 = det.drift_state if rep_ == 0 else info[2]
            np.random.seed(rngtap.seed_for(key, j))
            try:
                do_call(det, name, inject[1], obj_)
                info = ("accepted", None, st0)
            except Exception as e:  # noqa
                # a deliberate rejection is raised by menelaus itself; an exception whose innermost frame lies in a third-party
                # library means the validator let the input through and the detector fell over further down
                import traceback as _tb
                frames = _tb.extract_tb(e.__traceback__)
                inner_in_menelaus = "/menelaus/" in frames[-1].filename.replace("\\", "/")
                kind_ = type(e).__name__ if (inner_in_menelaus or not isinstance(e, ValueError)) else "downstream:ValueError"
                if not inner_in_menelaus and not isinstance(e, ValueError):
                    kind_ = "downstream:" + type(e).__name__
                info = (kind_, zoo.counters(det)[0] == tot0 and (rep_ == 0 or info[1] is not False), st0)
        np.random.seed(rngtap.seed_for(key, j))
        try:
            do_call(det, name, meth, conv(j, val))
        except ValueError as e:
            if name == "CUSUM" and "Standard deviation is 0" in str(e):
                trace.append({"state": "documented ValueError (zero variance)"})
                break
            trace.append({"state": "EXC", "exc": "ValueError: %s" % str(e)[:80]})
            continue
        except Exception as e:  # noqa
            trace.append({"state": "EXC", "exc": "%s: %s" % (type(e).__name__, str(e)[:80])})
            continue
        trace.append(zoo.observe(det, name))
    return trace, info


class Chain(list):
    """several malformed objects offered one after the other before a valid call (each must be refused on its own merits)"""


def offenders(name, d, calls, pos, rng):
    """(fault kind, container kind, method, object) candidates for injection before call `pos`"""
    k = zoo.kind(name)
    out = []
    if k == "y":
        yt, yp = calls[min(pos, len(calls) - 1)][1]
        out.append(("y_rows", "list", "update", ([yt, yt], yp)))
        out.append(("y_rows", "ndarray", "update", (yt, np.array([yp, yp, yp]))))
        out.append(("y_rows", "frame", "update", (pd.DataFrame({"y": [yt, yt]}), yp)))
        # one row with several values (a predict_proba row, a one-row frame with two columns): still not one label
        out.append(("y_rows", "ndarray", "update", (np.array([[yt, 1 - yt]]), yp)))
        out.append(("y_rows", "list", "update", (yt, [[yp, yp]])))
        out.append(("y_rows", "frame", "update", (yt, pd.DataFrame({"p0": [yp], "p1": [1 - yp]}))))
        return out
    meth, val = calls[min(pos, len(calls) - 1)]
    base = np.asarray(val, dtype=float)
    if k == "batch":
        one = base[:1]
        for c in ("ndarray", "list", "frame"):
            out.append(("rows", c, "update" if pos > 0 or name == "KdqTreeBatch" else meth, container(one, c)))
            # wrong row count *and* another width: must not establish that width either
            out.append(("rows_wide", c, "update" if pos > 0 or name == "KdqTreeBatch" else meth, container(np.hstack([one, one[:, :1]]), c)))
    else:
        two = np.vstack([base, base + 1.0])
        for c in ("ndarray", "list", "frame"):
            out.append(("rows", c, "update", container(two, c)))
            out.append(("rows_wide", c, "update", container(np.hstack([two, two[:, :1]]), c)))
    if k in ("x1", "xd") and d >= 2:
        # the right number of elements in the wrong shape: the observation as a column, or folded into two rows
        out.append(("rows", "ndarray", "update", base.reshape(-1, 1).copy()))
        out.append(("rows", "list", "update", base.reshape(-1, 1).tolist()))
        if d % 2 == 0:
            out.append(("rows", "ndarray", "update", base.reshape(2, -1).copy()))
    # no observation at all: a 2-d input of the right width with zero rows (an empty slice of the data set)
    for c in ("ndarray", "frame"):
        out.append(("zero_rows", c, "update" if (pos > 0 or k != "batch" or name == "KdqTreeBatch") else meth, container(base[:0], c)))
    if k == "xd":
        # a bare number handed to a detector that has established several columns: one column where d are expected
        out.append(("width", "scalar", "update", float(base[0, 0])))
        out.append(("width", "scalar", "update", np.float64(base[0, 0])))
    wide = np.hstack([base, base[:, :1] + 0.5])
    fault = "univariate" if name in UNIVARIATE else "width"
    m = "update" if (pos > 0 or k != "batch" or name == "KdqTreeBatch") else meth
    for c in ("ndarray", "list", "frame"):
        out.append((fault, c, m, container(wide, c)))
    if d >= 2:
        names = ["c%d" % i for i in range(d)]
        out.append(("names_renamed", "frame", m, container(base, "frame", ["q%d" % i for i in range(d)])))
        out.append(("names_default", "frame", m, pd.DataFrame(base.copy())))  # pd.DataFrame(array): labels 0 .. d-1, not the established names
        out.append(("names_reordered", "frame", m, container(base[:, ::-1], "frame", names[::-1])))
        narrow = base[:, : d - 1]
        for c in ("ndarray", "frame"):
            out.append(("width", c, m, container(narrow, c)))
    return out


def run_case(case, ctx):
    import time as _t

    t0 = _t.time()
    try:
        return _run_case(case, ctx)
    finally:
        ctx.count("_ms:%s:%s" % (case["kind"], case["det"]), int(1000 * (_t.time() - t0)))


def run_script(case, ctx):
    """regression scenario: scripted calls [method, container kind, 2-d values, names or None, expected 'ok' | 'ValueError']"""
    lit = case["literal"]
    name = case["det"]
    det = zoo.make(name, lit["params"])
    for i, (meth, ckind, val, names, expect) in enumerate(lit["script"]):
        arg = container(val, ckind, names)
        np.random.seed(i)
        try:
            getattr(det, meth)(arg)
            got = "ok"
        except Exception as e:  # noqa
            got = classify_exc(e)
        if got != expect:
            ctx.violation(lit["signature"], "%s scripted call %d (%s, %s %s): %s, expected %s" % (name, i, meth, ckind, np.shape(val), got, expect),
                          detector=name, script=lit["script"], step=i)
            return
    ctx.nontrivial = True


def _run_case(case, ctx):
    warnings.simplefilter("ignore")
    name = case["det"]
    if "literal" in case:
        return run_script(case, ctx)
    rng = gen.rng_for(case["seed"], name, case["kind"])
    key = case.get("seed_key", case["id"])
    if case["kind"] == "table":
        return run_table(name, rng, ctx)
    params = det_params(name, rng)
    calls, d = valid_history(name, rng, params, allow_1d=True, p1d=0.25)
    k = zoo.kind(name)
    if case["kind"] == "cont":
        return run_containers(name, params, calls, d, rng, key, ctx)
    # ---- injection: valid inputs are presented in one container kind per case (frames establish names)
    ckind = "pairs" if k == "y" else str(rng.choice(["ndarray", "list", "frame"]))
    conv = (lambda j, v: v) if k == "y" else (lambda j, v: container(v, ckind))
    clean, _ = run_history(name, params, calls, key, conv)
    drift_pos = [j + 1 for j, o in enumerate(clean) if o.get("state") == "drift" and j + 1 < len(calls)]
    positions = sorted(set([0, 1, len(calls) - 1] + drift_pos[:4] + [int(p) for p in rng.integers(1, len(calls), size=3)]))[:10]
    rejected_then_drift = False
    for pos in positions:
        # the table state before position pos
        tab = Table(name)
        if k != "y":
            for (m_, v) in calls[:pos]:
                tab.accept(conv(0, v))
        cands = offenders(name, d, calls, pos, rng)
        fault, cont_, meth, obj = cands[int(rng.integers(0, len(cands)))]
        ctx.count("faults_injected")
        if k == "y":
            expect_accept, rule = False, "y_rows"
        else:
            expect_accept, rule = tab.classify(obj)
        # the caller may retry: the same malformed object offered two or three times in a row must be refused every time
        times = 1 if rng.random() < 0.6 else int(rng.integers(2, 4))
        if times > 1:
            ctx.count("faults_repeated_in_a_row")
        inj_obj = obj
        if k != "y" and rng.random() < 0.25:
            # two different malformed calls in a row: what the first one is refused for must not change what the second is judged by
            # (a frame of another width after array inputs is the open known finding: it is accepted and re-defines the width, so it
            # cannot serve as the harmless first element of a chain)
            arr_est = tab.width is not None and tab.by == "array"
            alts = [c_ for c_ in cands if c_[2] == meth and not tab.classify(c_[3])[0] and c_[3] is not obj
                    and not (arr_est and c_[1] == "frame" and tab.classify(c_[3])[1] in ("width", "univariate"))]
            if alts:
                first = alts[int(rng.integers(0, len(alts)))][3]
                inj_obj = Chain([first, obj])
                times = 1
                ctx.count("faults_chained_two_different")
        trace, info = run_history(name, params, calls, key, conv, inject=(pos, meth, inj_obj, times))
        est = "none" if tab.width is None else tab.by
        base = dict(detector=name, params=params, fault=fault, offender_container=cont_, position=pos, valid_inputs_as=ckind,
                    established_by=est, offender_shape=list(shape_of(name, obj)[:2]) if k != "y" else None, calls=len(calls))
        if expect_accept:
            ctx.count("faults_valid_by_table")
            continue  # valid given what has been accepted so far: not a fault
        sigtail = "%s/%s_after_%s" % (rule, "df" if cont_ == "frame" else cont_, est)
        if info is None:
            ctx.count("history_ended_before_injection_point")
            continue
        if info[0] == "accepted" or info[0].startswith("downstream:") or (info[0] not in ("ValueError",) and rule == "width" and cont_ == "frame" and est == "array"):
            how = "was accepted" if info[0] == "accepted" else "passed validation and then raised %s further down" % info[0].replace("downstream:", "")
            ctx.violation("C14/accepted/" + sigtail,
                          "%s: a %s input of shape %s %s before call %d although rule '%s' requires ValueError (established width %r, names %r; "
                          "valid inputs so far given as %s)" % (name, cont_, base["offender_shape"], how, pos, rule, tab.width, tab.names, ckind), **base)
            continue
        if False:
            ctx.violation("C14/accepted/" + sigtail,
                          "%s: a %s input of shape %s was accepted before call %d although rule '%s' requires ValueError (established width %r, names %r; "
                          "valid inputs so far given as %s)" % (name, cont_, base["offender_shape"], pos, rule, tab.width, tab.names, ckind), **base)
            continue
        if info[0] != "ValueError":
            ctx.violation("C14/wrong_exception/%s/%s" % (info[0], sigtail), "%s: malformed %s input (%s) raised %s instead of ValueError" % (name, cont_, rule, info[0]), **base)
            continue
        if info[1] is False and info[2] != "drift":
            ctx.violation("C14/rejected_call_counted/" + rule, "%s: the rejected call before call %d changed the total counter" % (name, pos), **base)
            continue
        if info[2] == "drift":
            ctx.count("rejections_right_after_drift")
        ctx.count("faults_rejected_no_harm_checked")
        # later outputs identical to the run in which the rejected call never happened
        bad = None
        for j in range(pos, len(clean)):
            ctx.count("later_outputs_compared")
            if j >= len(trace):
                bad = (j, "missing", None, None)
                break
            kf = zoo.obs_equal(clean[j], trace[j]) if set(clean[j]) == set(trace[j]) else "keys"
            if kf is not None:
                bad = (j, kf, clean[j].get(kf, clean[j]), trace[j].get(kf, trace[j]))
                break
        if bad:
            ctx.violation("C14/harm_after_rejection/%s/%s" % (rule, "df" if cont_ == "frame" else cont_),
                          "%s: after the %s input rejected (rule %s) before call %d, call %d reports %s = %r; without the rejected call it reports %r" % (
                              name, cont_, rule, pos, bad[0], bad[1], bad[3], bad[2]), **base)
            continue
        if any(o.get("state") == "drift" for o in clean[pos:]):
            rejected_then_drift = True
    ctx.nontrivial = rejected_then_drift
    ctx.sample = {"kind": "injection", "detector": name, "params": params, "calls": len(calls), "positions": positions, "valid_inputs_as": ckind}
    ctx.digest = "inj-%s-%s-%s" % (name, sorted((a, str(b)) for a, b in params.items()), case["seed"])


def run_containers(name, params, calls, d, rng, key, ctx):
    k = zoo.kind(name)
    typed = False
    if k != "y" and rng.random() < 0.35:
        # whole-number histories in [0, 200]: the same numbers may arrive with a narrow integer dtype
        allv = np.concatenate([np.asarray(v, dtype=float).ravel() for _, v in calls])
        lo_, hi_ = float(allv.min()), float(allv.max())
        calls = [(m_, np.round((np.asarray(v, dtype=float) - lo_) / (hi_ - lo_ + 1e-12) * 200.0)) for m_, v in calls]
        typed = True
    if k == "y":
        kinds = ["int", "list", "array", "series", "array2d"]

        def conv_for(kind_of):
            def conv(j, v):
                yt, yp = v
                kk = kind_of(j)
                f = {"int": lambda x: int(x), "list": lambda x: [int(x)], "array": lambda x: np.array([x]), "series": lambda x: pd.Series([x]),
                     "array2d": lambda x: np.array([[x]])}[kk]
                return (f(yt), f(yp))
            return conv
    else:
        if d == 1 and k != "batch":
            kinds = ["scalar", "flat_list", "list", "flat_array", "ndarray", "series", "frame", "view"]
        elif d == 1:
            kinds = ["flat_list", "list", "flat_array", "ndarray", "series", "frame", "fortran", "view"]
        elif k == "batch":
            kinds = ["list", "ndarray", "fortran", "view", "frame"]
        else:
            kinds = ["flat_list", "list", "flat_array", "ndarray", "series", "frame", "view"]

        if typed:
            kinds = kinds + ["uint8", "int32", "int64", "frame_int64"]
            ctx.count("typed_container_cases")

        def conv_for(kind_of):
            return lambda j, v: container(v, kind_of(j))
    refkind = "int" if k == "y" else ("ndarray" if "ndarray" in kinds else kinds[0])
    ref, _ = run_history(name, params, calls, key, conv_for(lambda j: refkind))
    runs = [(kk, conv_for(lambda j, kk=kk: kk)) for kk in kinds]
    mix = [kinds[int(i)] for i in rng.integers(0, len(kinds), size=len(calls))]
    runs.append(("mixed", conv_for(lambda j: mix[j])))
    drift = any(o.get("state") == "drift" for o in ref)
    for label, conv in runs:
        tr, _ = run_history(name, params, calls, key, conv)
        ctx.count("container_twin_runs")
        for j, (a, b) in enumerate(zip(ref, tr)):
            kf = zoo.obs_equal(a, b) if set(a) == set(b) else "keys"
            if kf is not None:
                exc = b.get("exc")
                cont_here = label if label != "mixed" else mix[j]
                ctx.violation("C14/container/%s/%s" % (cont_here, "raised" if b.get("state") == "EXC" else "output"),
                              "%s: the same values passed as %s %s at call %d (%s = %r; as %s it is %r)" % (
                                  name, cont_here, "raise %s" % exc if exc else "give a different output", j, kf, b.get(kf), refkind, a.get(kf)),
                              detector=name, params=params, container=cont_here, run=label, step=j)
                break
    ctx.nontrivial = drift
    ctx.sample = {"kind": "containers", "detector": name, "params": params, "containers": kinds + ["mixed"], "calls": len(calls)}
    ctx.digest = "cont-%s-%s-%s" % (name, sorted((a, str(b)) for a, b in params.items()), hash(str(mix)))


def run_table(name, rng, ctx):
    """every order of up to three container kinds of valid inputs, followed by each kind of mismatching input, on a fresh detector each
    time; only accept / reject decisions are judged (outputs are the injection cases' business)"""
    import itertools

    params = det_params(name, rng)
    # only accept / reject decisions are judged here: make the stochastic machinery cheap
    for pk, pv in (("bootstrap_samples", 2), ("sampling_times", 3)):
        if pk in params:
            params[pk] = pv
    k = zoo.kind(name)
    d = 1 if name in UNIVARIATE else 2
    rows = 12 if k == "batch" else 1
    n = 0

    def valid(i, c):
        a = rng.normal(0, 1, size=(rows, d)) + i
        return container(a, c)

    seqs = [s for r in (1, 2, 3) for s in itertools.product(["ndarray", "list", "frame"], repeat=r)]
    for seq in seqs:
        for off_kind in ("wide", "narrow", "renamed", "reordered", "rows"):
            for off_c in ("ndarray", "list", "frame"):
                if off_kind in ("renamed", "reordered") and off_c != "frame":
                    continue
                if off_kind == "narrow" and d == 1:
                    continue
                if off_kind == "reordered" and d == 1:
                    continue
                det = zoo.make(name, params)
                tab = Table(name)
                ok = True
                for i, c in enumerate(seq):
                    x = valid(i, c)
                    try:
                        if k == "batch" and i == 0 and name != "KdqTreeBatch":
                            det.set_reference(x)
                        else:
                            np.random.seed(i)
                            det.update(x)
                        tab.accept(x)
                    except Exception as e:  # noqa
                        ctx.violation("C14/table/valid_input_refused/%s" % c, "%s: valid %s input #%d of the sequence %r was refused: %s: %s" % (
                            name, c, i, seq, type(e).__name__, str(e)[:100]), detector=name, sequence=list(seq))
                        ok = False
                        break
                if not ok:
                    continue
                a = rng.normal(0, 1, size=(rows, d))
                if off_kind == "wide":
                    off = container(np.hstack([a, a[:, :1]]), off_c)
                elif off_kind == "narrow":
                    off = container(a[:, :1], off_c)
                elif off_kind == "renamed":
                    off = container(a, "frame", ["q%d" % i for i in range(d)])
                elif off_kind == "reordered":
                    off = container(a, "frame", ["c%d" % i for i in range(d)][::-1])
                else:
                    off = container(np.vstack([a, a]) if k != "batch" else a[:1], off_c)
                accept, rule = tab.classify(off)
                n += 1
                ctx.count("table_sequences")
                try:
                    np.random.seed(99)
                    det.update(off)
                    got = "accepted"
                except Exception as e:  # noqa
                    got = classify_exc(e)
                est = tab.by
                tail = "%s/%s_after_%s" % (rule, "df" if off_c == "frame" else off_c, est)
                b = dict(detector=name, sequence=list(seq), offender=off_kind, offender_container=off_c, established_by=est, names=tab.names)
                if accept and got != "accepted":
                    ctx.violation("C14/table/valid_input_refused/%s_%s_after_%s" % (off_kind, off_c, est),
                                  "%s: after valid inputs %r a %s %s input is valid by the rules (width %r, names %r) but raised %s" % (name, seq, off_kind, off_c, tab.width, tab.names, got), **b)
                elif not accept and (got == "accepted" or got.startswith("downstream:") or (got != "ValueError" and rule == "width" and off_c == "frame" and est == "array")):
                    ctx.violation("C14/accepted/" + tail, "%s: after valid inputs %r a %s %s input %s although rule '%s' requires ValueError" % (
                        name, seq, off_kind, off_c, "was accepted" if got == "accepted" else "passed validation and raised %s further down" % got[11:], rule), **b)
                elif not accept and got != "ValueError":
                    ctx.violation("C14/wrong_exception/%s/%s" % (got, tail), "%s: %s %s input raised %s instead of ValueError" % (name, off_kind, off_c, got), **b)
    ctx.nontrivial = n > 50
    ctx.sample = {"kind": "acceptance table", "detector": name, "sequences": len(seqs), "decisions": n}
    ctx.digest = "table-" + name
