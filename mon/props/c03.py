"""C03 - ADWIN window statistics and cut rule; ADWINAccuracy = ADWIN on 1{y_true == y_pred}
with the constructor parameters it was given."""
import warnings

import numpy as np
import pandas as pd

from menelaus.change_detection import ADWIN
from menelaus.concept_drift import ADWINAccuracy

from .. import gen
from ..models.adwin import AdwinModel
from ..models.base import Shadow

ID = "C03"
LEVEL = "exploration"
ANCHOR_FILES = ["menelaus/change_detection/adwin.py", "menelaus/concept_drift/adwin_accuracy.py"]
RULE = (
    "one case per generated stream (real-valued level/variance shifts, 0/1 streams, offsets up to 1e6) and parameter draw "
    "(delta 1e-6..1, max_buckets 1/2/3/5, check period 1..32, minimum window 1..10, minimum sub-window 1..5, both bounds); "
    "ADWIN (or ADWINAccuracy fed label pairs) and an index-range exponential-histogram specification are stepped together; "
    "after every update drift_state, mean(), variance(), retraining_recs, total_samples (and the private window width, when "
    "present) are compared with statistics recomputed from the raw last-W inputs.  Non-trivial = at least one cut; distinct = "
    "distinct (class, parameters, stream digest)."
)
ASSUMPTIONS = [
    "subwindow_size_thresh >= 1 (smaller values divide by zero in the documented formula); window_size_thresh >= 0",
    "values compared with rtol 1e-9 scaled to the range / magnitude of everything seen; cut decisions within that band of the "
    "epsilon-cut are adopted from the implementation (counted)",
]

PARAM_NAMES = ("delta", "max_buckets", "new_sample_thresh", "window_size_thresh", "subwindow_size_thresh", "conservative_bound")


def cases(tier, seed):
    n = 320 if tier == "quick" else 30000
    out = []
    for i in range(n):
        out.append({"id": "adwin/%d" % i, "cls": "ADWIN", "seed": [seed, 3, i]})
    for i in range(n // 3):
        out.append({"id": "acc/%d" % i, "cls": "ADWINAccuracy", "seed": [seed, 33, i]})
    return out


def targets(tier):
    k = 1 if tier == "quick" else 8
    t = {"steps": 40000 * k, "cuts": 1000 * k, "multi_bucket_cuts": 100 * k, "histories_depth4plus": 50 * k,
         "cuts:ADWINAccuracy": 50 * k, "accuracy_nondefault_params": 50,
         "explicit_resets": 300 * k, "numpy_typed_parameters": 60 * k}
    for m in (1, 2, 3, 5):
        t["cuts:M%d" % m] = 50 * k
    return t


def draw_params(rng):
    return dict(
        delta=float(rng.choice([1e-6, 0.002, 0.05, 0.3, 1.0])),
        max_buckets=int(rng.choice([1, 2, 3, 5])),
        new_sample_thresh=int(rng.choice([1, 2, 5, 8, 32])),
        window_size_thresh=int(rng.choice([0, 1, 3, 10])),
        subwindow_size_thresh=int(rng.choice([1, 2, 5])),
        conservative_bound=bool(rng.integers(0, 2)),
    )


def run_case(case, ctx):
    warnings.simplefilter("ignore")
    cls = case["cls"]
    if "literal" in case:
        kw = dict(case["literal"]["params"])
        xs = list(case["literal"]["stream"])
        typed = case["literal"].get("dtype")
    else:
        rng = gen.rng_for(case["seed"], cls)
        kw = draw_params(rng)
        n = int(rng.integers(60, 700))
        if cls == "ADWINAccuracy":
            xs = [1 - e for e in gen.bernoulli_piecewise(rng, n, seg=(5, 150))]
        else:
            r = rng.random()
            off = float(rng.choice([0.0, 0.0, 0.0, 100.0, 1e6]))
            xs = gen.level_shift_stream(rng, n, seg=(4, 150), offset=off, heavy=bool(rng.random() < 0.3))
            if r < 0.25:
                xs = [float(v > off) for v in xs]
            elif r < 0.40:
                # typed inputs: the same numbers arrive as small unsigned integers / float32 (numpy scalars and 1x1 arrays)
                typed = str(rng.choice(["uint8", "int16", "float32"]))
                if typed == "float32":
                    xs = [float(np.float32(v - off)) for v in xs]
                else:
                    lo_, hi_ = min(xs), max(xs)
                    top = 255 if typed == "uint8" else 30000
                    xs = [float(int(round((v - lo_) / (hi_ - lo_ + 1e-12) * top))) for v in xs]
    typed = locals().get("typed")
    if typed:
        ctx.count("typed_input_streams:" + typed)
    if cls == "ADWIN":
        d = ADWIN(**kw)
    else:
        d = ADWINAccuracy(**kw)
        if any(kw[k] != v for k, v in zip(PARAM_NAMES, (0.002, 5, 32, 10, 5, False))):
            ctx.count("accuracy_nondefault_params")
    sh = Shadow(lambda: AdwinModel(**kw), lambda m: m.state)
    cuts = 0
    rngl = np.random.default_rng(len(xs))
    resets = set(case.get("literal", {}).get("resets", []))
    if "literal" not in case:
        # the public reset() between two updates (an ensemble resets all members when one of them drifted): it clears state and
        # recommendations; the window "shrinks only in an update that reports drift" and the check schedule is unaffected
        resets = {int(v) for v in np.random.default_rng([len(xs), 7]).integers(1, len(xs), size=int(len(xs) * 0.012) + (len(xs) % 2))}
    ptyped = bool(case.get("literal", {}).get("numpy_params")) if "literal" in case else bool(len(xs) % 3 == 0)
    if ptyped:
        # the same parameter values as numpy scalars (from a parameter grid held in an array / DataFrame)
        ctx.count("numpy_typed_parameters")
        try:
            d = (ADWIN if cls == "ADWIN" else ADWINAccuracy)(**gen.numpyfy(kw))
        except (ValueError, TypeError):  # a constructor may insist on plain Python types
            ctx.count("numpy_typed_parameters_refused_by_constructor")
    reset_after_drift = "literal" not in case and len(xs) % 4 == 1
    for i, x in enumerate(xs):
        if reset_after_drift and d.drift_state == "drift" and i % 3 == 0:
            resets.add(i)  # the caller's own reset() right after an alarm, before the next sample (what an ensemble does to all members)
            ctx.count("resets_right_after_a_drift")
        if i in resets:
            d.reset()
            ctx.count("explicit_resets")
            if d.drift_state is not None or list(d.retraining_recs) != [None, None]:
                ctx.violation("C03/%s/reset" % cls, "after reset(): drift_state %r, retraining_recs %r" % (d.drift_state, list(d.retraining_recs)),
                              cls=cls, params=kw, stream=xs[:i], step=i, resets=sorted(resets), numpy_params=ptyped)
                break
        if cls == "ADWIN":
            if typed:
                tx = np.dtype(typed).type(x)
                d.update(tx if i % 2 else np.array([[tx]]))
            elif len(xs) % 7 == 3:
                # one mutable row (an array or a list) kept by the caller and overwritten in place before every update
                if i == 0:
                    rowbuf = np.zeros((1, 1)) if len(xs) % 2 else [0.0]
                    ctx.count("streams_through_one_reused_row")
                if isinstance(rowbuf, list):
                    rowbuf[0] = x
                else:
                    rowbuf[0, 0] = x
                d.update(rowbuf)
            else:
                d.update(x)
        else:
            # indicator x = 1{y_true == y_pred}, presented through arbitrary label pairs
            yt = int(rngl.integers(0, 3))
            yp = yt if x == 1 else (yt + 1) % 3
            if len(xs) % 5 == 2:
                # called the way an ensemble calls its members: the feature row comes along (documented as unused)
                d.update(yt, yp, X=np.array([[float(i), 1.5, -2.0]]) if i % 2 else pd.DataFrame({"a": [1.0], "b": [float(i)]}))
                if i == 0:
                    ctx.count("accuracy_streams_with_feature_rows")
            else:
                d.update(yt, yp)
        st = d.drift_state
        ok, adopted = sh.step((x,), st)
        m = sh.model
        ctx.count("steps")
        if adopted:
            ctx.count("near_ties_adopted")
        base = dict(cls=cls, params=kw, stream=xs[: i + 1], step=i, resets=sorted(r for r in resets if r <= i), numpy_params=ptyped)
        if not ok:
            ctx.violation("C03/%s/cut_decision" % cls,
                          "%s(%s) update %d: implementation %r, specification %r (window %d, margins %s)" % (
                              cls, kw, i, st, m.state, m.W(), [round(mg, 6) for (_, _, mg) in m.cmp.log][:6]),
                          got=st, expected=m.state, **base)
            break
        W = m.W()
        if d.total_samples != m.total:
            ctx.violation("C03/%s/total_samples" % cls, "update %d: total_samples %r, expected %d" % (i, d.total_samples, m.total), **base)
            break
        mean, var = m.stats()
        tm, tv = m.tolerances()
        gm, gv = float(d.mean()), float(d.variance())
        ws = getattr(d, "_window_size", None)
        if not (abs(gm - mean) <= tm and abs(gv - var) <= tv):
            ctx.violation("C03/%s/window_statistics" % cls,
                          "%s(%s) update %d: mean()/variance() = %r/%r, the last W=%d inputs have %r/%r (private width %r)" % (
                              cls, kw, i, gm, gv, W, mean, var, ws),
                          got=[gm, gv], expected=[mean, var], **base)
            break
        if ws is not None and ws != W:
            ctx.violation("C03/%s/window_width" % cls, "update %d: window width %r, specification %d" % (i, ws, W), **base)
            break
        recs = [None if v is None else int(v) for v in list(d.retraining_recs)]
        if recs != m.recs:
            ctx.violation("C03/%s/retraining_recs" % cls,
                          "update %d (state %r): retraining_recs %r, expected %r = [total - W, total - 1]" % (i, st, recs, m.recs), **base)
            break
        if st == "drift":
            cuts += 1
            ctx.count("cuts")
            ctx.count("cuts:M%d" % kw["max_buckets"])
            ctx.count("cuts:" + cls)
            if m.dropped >= 2:
                ctx.count("multi_bucket_cuts")
    ctx.cmax("rows_depth", sh.model.depth())
    if sh.model.depth() >= 4:
        ctx.count("histories_depth4plus")
    ctx.nontrivial = cuts >= 1
    ctx.digest = "%s-%s-%s" % (cls, sorted(kw.items()), hash(tuple(xs)))
    ctx.sample = {"class": cls, "params": kw, "length": len(xs), "cuts": cuts, "first_values": [round(float(v), 4) for v in xs[:8]]}
