"""C09 - kdq-tree detectors: drift iff leaf divergence > bootstrap critical value (batch), resp. for more
than persistence x window_size samples *in a row* (streaming).

Oracle: own kdq-tree (models/kdq.py builder + point-wise router) gives reference / test leaf counts ->
corrected distributions -> KL; the critical value is recomputed from the *logged* np.random.choice
draws of the implementation (numpy global-RNG tap): the log must show exactly bootstrap_samples draws
of size 2 x sample size with p = the corrected reference leaf distribution."""
import warnings

import numpy as np
import scipy.stats

from menelaus.data_drift import KdqTreeBatch, KdqTreeStreaming

from .. import gen, rngtap
from ..models import kdq as K
from ..models.base import Cmp

ID = "C09"
LEVEL = "exploration"
ANCHOR_FILES = ["menelaus/data_drift/kdq_tree.py"]
RULE = (
    "one case per generated history: KdqTreeBatch over 6-25 batches (level / variance shifts, duplicates, identical batches, "
    "explicit set_reference calls) or KdqTreeStreaming over a stream whose accumulated divergence crosses the critical value "
    "repeatedly in both directions (outlier bursts diluted by inliers), parameters drawn from alpha 0.01-0.5, bootstrap 10-60, "
    "count_ubound 1-20, window 2-40, persistence 0-1; every update runs under the RNG tap and is judged against the decision "
    "recomputed from own leaf counts and the logged bootstrap draws.  Non-trivial = at least one drift and one non-drift decision "
    "after a reference was (re)built; distinct = digest of (class, parameters, data)."
)
ASSUMPTIONS = [
    "scipy.stats.entropy and numpy.quantile(method='nearest') are trusted (the KL formula itself is validated independently in C08)",
    "the implementation draws its bootstrap through numpy.random.choice on the global generator; any other drawing scheme makes "
    "the check inconclusive, not silent",
]


def distn(counts):
    counts = np.asarray(counts, dtype=float)
    return (counts + 0.5) / (np.sum(counts) + len(counts) / 2)


class RefModel:
    """own tree on a reference sample + critical value from the logged draws"""

    def __init__(self, ref, cub, prop):
        self.ref = np.asarray(ref, dtype=float)
        self.root, self.leaves = K.build(self.ref, cub, prop)
        self.ref_counts = [l["count"] for l in self.leaves]
        self.ref_dist = distn(self.ref_counts)
        self.L = len(self.leaves)
        self.test_counts = np.zeros(self.L)

    public = False

    def counts_of(self, X):
        c = np.zeros(self.L)
        for row in np.asarray(X, dtype=float):
            c[K.route(self.root, row)[0]] += 1
        return c

    @staticmethod
    def _public_leaves(det):
        df = det.to_plotly_dataframe()
        parents = set(int(v) for v in df["parent_idx"].dropna().tolist())
        leaf = [int(i) not in parents for i in df["idx"].tolist()]
        return df, leaf

    def reconcile(self, det):
        """Compare the own reference tree with the detector's public description of its tree (node depths and reference counts in
        pre-order).  Where a tree stops splitting is not fixed by any property, so a different shape is not a violation: the monitor
        then takes the leaf counts from the public frame (the partitioner's counting is C08's subject).  Returns an error string only
        if the public tree does not hold the reference sample."""
        df, leaf = self._public_leaves(det)
        own = K.nodes_preorder(self.root)
        if df["depth"].tolist() == [nd["depth"] for nd in own] and df["cell_count"].tolist() == [nd["count"] for nd in own]:
            return None
        if int(df["cell_count"].iloc[0]) != len(self.ref) or sum(c for c, l in zip(df["cell_count"].tolist(), leaf) if l) != len(self.ref):
            return "the detector's tree holds %d reference points in its root / %d in its leaves; the reference has %d rows" % (
                int(df["cell_count"].iloc[0]), sum(c for c, l in zip(df["cell_count"].tolist(), leaf) if l), len(self.ref))
        self.public = True
        self.ref_counts = [int(c) for c, l in zip(df["cell_count"].tolist(), leaf) if l]
        self.ref_dist = distn(self.ref_counts)
        self.L = len(self.ref_counts)
        self.test_counts = np.zeros(self.L)
        return None

    def public_test_counts(self, det):
        df, leaf = self._public_leaves(det)
        return np.array([int(c + dd) for c, dd, l in zip(df["cell_count"].tolist(), df["count_diff"].tolist(), leaf) if l], dtype=float)

    def check_bootstrap(self, events, B, sample_size):
        """returns (list of bootstrap divergences or None, error message or None).  Accepted drawing schemes: B draws of 2n cells,
        2B draws of n cells, or one draw of shape (B, 2n); anything else whose total is right is reported as 'scheme not understood'
        (inconclusive), a wrong amount of drawn cells or a wrong distribution is a violation."""
        ch = [e for e in events if e[0] == "choice"]
        if not ch:
            return None, "no bootstrap draw was made (numpy.random.choice was not called) while building the reference"
        drawn = []
        for (_, a, k, res) in ch:
            p = k.get("p", a[3] if len(a) > 3 else None)
            pool = a[0]
            npool = pool if isinstance(pool, (int, np.integer)) else len(pool)
            if p is None or len(p) != self.L or npool != self.L:
                return None, "bootstrap drawn over %r cells with p of length %r; the reference tree has %d leaves" % (
                    npool, None if p is None else len(p), self.L)
            if not np.allclose(np.sort(np.asarray(p, dtype=float)), np.sort(self.ref_dist), rtol=1e-12, atol=1e-15):
                return None, "bootstrap probabilities %r are not the corrected reference leaf distribution %r" % (
                    np.round(p, 6).tolist(), np.round(self.ref_dist, 6).tolist())
            drawn.append(np.asarray(res))
        total = sum(r.size for r in drawn)
        if total != 2 * sample_size * B:
            return None, "%d cells were drawn in %d call(s); bootstrap_samples=%d pairs of samples of size %d need %d" % (
                total, len(drawn), B, sample_size, 2 * sample_size * B)
        if len(drawn) == B and all(r.shape == (2 * sample_size,) for r in drawn):
            pairs = [(r[:sample_size], r[sample_size:]) for r in drawn]
        elif len(drawn) == 2 * B and all(r.shape == (sample_size,) for r in drawn):
            pairs = [(drawn[2 * i], drawn[2 * i + 1]) for i in range(B)]
        elif len(drawn) == 1 and drawn[0].shape == (B, 2 * sample_size):
            pairs = [(r[:sample_size], r[sample_size:]) for r in drawn[0]]
        else:
            return None, "SCHEME: drawing scheme not understood (%d calls, shapes %r)" % (len(drawn), [r.shape for r in drawn][:4])
        dists = []
        for h1, h2 in pairs:
            c1 = np.bincount(h1, minlength=self.L)
            c2 = np.bincount(h2, minlength=self.L)
            dists.append(scipy.stats.entropy(distn(c1), distn(c2)))
        return dists, None


def critical(dists, alpha):
    return float(np.quantile(dists, 1 - alpha, method="nearest"))


def cases(tier, seed):
    nb = 150 if tier == "quick" else 1500
    ns = 260 if tier == "quick" else 2600
    out = [{"id": "batch/%d" % i, "kind": "batch", "seed": [seed, 9, i], "cost": 2} for i in range(nb)]
    out += [{"id": "stream/%d" % i, "kind": "stream", "seed": [seed, 99, i], "cost": 3} for i in range(ns)]
    out += [{"id": "boundary/%d" % i, "kind": "boundary", "seed": [seed, 999, i], "cost": 2} for i in range(nb // 3)]
    return out


def targets(tier):
    k = 1 if tier == "quick" else 10
    return {"batch_decisions": 1000 * k, "batch_drifts": 300 * k, "stream_decisions": 3000 * k, "stream_drifts": 200 * k,
            "stream_histories_with_interrupted_run": 30 * k, "bootstrap_blocks_parsed": 400 * k, "set_reference_calls": 40 * k,
            "stream_above_bound_steps": 1000 * k, "stream_below_bound_steps": 1000 * k, "detector_plot_frames_checked": 200 * k, "boundary_decisions": 120 * k}


def run_case(case, ctx):
    warnings.simplefilter("ignore")
    if case["kind"] == "batch":
        return run_batch(case, ctx)
    if case["kind"] == "boundary":
        return run_boundary(case, ctx)
    return run_stream(case, ctx)


def run_boundary(case, ctx):
    """boundary-seeking workload for KdqTreeBatch: once the reference is installed and the critical value known from the logged
    bootstrap, test batches are *constructed* from reference points with per-leaf counts chosen so that their divergence lies as
    close as possible above / below the critical value (plus exact ties where the counts allow) - the decisions there are what tells
    `>` from `>=`, tolerance guards and other quantile conventions."""
    rng = gen.rng_for(case["seed"])
    kw = draw_common(rng)
    kw["count_ubound"] = int(rng.choice([2, 3, 5, 10]))
    d = int(rng.integers(1, 3))
    n = int(rng.integers(12, 60))
    ref = rng.normal(0, 1, size=(n, d))
    key = case.get("seed_key", case["id"])
    cmp_ = Cmp()
    rounds = 0
    with rngtap.Tap() as tap:
        for rnd in range(2):
            det = KdqTreeBatch(**kw)
            np.random.seed(rngtap.seed_for(key, rnd, 0))
            mark = tap.mark()
            det.set_reference(ref.copy())
            model = RefModel(ref, kw["count_ubound"], kw["cutpoint_proportion_lbound"])
            if model.reconcile(det) or model.public or model.L < 2:
                return
            dists, err = model.check_bootstrap(tap.since(mark), kw["bootstrap_samples"], n)
            if err:
                if err.startswith("SCHEME"):
                    ctx.mark_inconclusive(err)
                else:
                    ctx.violation("C09/batch/bootstrap", "boundary case: " + err, params=kw)
                return
            crit = critical(dists, kw["alpha"])
            # candidate count vectors: random ones, and the halves of the logged bootstrap draws themselves (their divergences
            # against the reference are the neighbourhood of the critical value)
            members = [[i for i in range(n) if K.route(model.root, ref[i])[0] == l] for l in range(model.L)]
            cands = []
            for _ in range(400):
                m = int(rng.integers(2, 8 * n))
                c = rng.multinomial(m, rng.dirichlet(np.ones(model.L) * float(rng.choice([0.3, 1.0, 3.0]))))
                cands.append(c)
            def marg(c):
                return float(scipy.stats.entropy(model.ref_dist, distn(np.asarray(c, dtype=float)))) - crit

            scored = sorted(((marg(c), tuple(int(v) for v in c)) for c in cands), key=lambda t: abs(t[0]))
            # greedy local search from the best candidates on either side: move / add / remove single rows while the margin
            # keeps its sign and shrinks
            refined = []
            for want_above in (True, False):
                pool = [t for t in scored if (t[0] > 0) == want_above][:3]
                for m0, c0 in pool:
                    c = list(c0)
                    best = m0
                    for _ in range(900):
                        c2 = list(c)
                        mv = int(rng.integers(0, 3))
                        i1, i2 = int(rng.integers(0, model.L)), int(rng.integers(0, model.L))
                        if mv == 0 and c2[i1] > 0:
                            c2[i1] -= 1
                            c2[i2] += 1
                        elif mv == 1:
                            c2[i1] += 1
                        elif c2[i1] > 0 and sum(c2) > 2:
                            c2[i1] -= 1
                        if any(c2[l] and not members[l] for l in range(model.L)):
                            continue
                        m2 = marg(c2)
                        if (m2 > 0) == want_above and abs(m2) < abs(best):
                            c, best = c2, m2
                    refined.append((best, tuple(c)))
            scored = sorted(refined + scored[:4], key=lambda t: abs(t[0]))
            above = [t for t in scored if t[0] > 0][:2]
            below = [t for t in scored if t[0] <= 0][:2]
            for margin, c in above + below:
                rows = []
                for l, k_ in enumerate(c):
                    src = members[l]
                    if k_ and not src:
                        rows = None
                        break
                    rows += [ref[src[j % len(src)]] for j in range(k_)]
                if not rows or len(rows) < 2:
                    continue
                X = np.array(rows)
                det2 = KdqTreeBatch(**kw)
                np.random.seed(rngtap.seed_for(key, rnd, 0))
                det2.set_reference(ref.copy())
                np.random.seed(rngtap.seed_for(key, rnd, 1))
                det2.update(X.copy())
                div = float(scipy.stats.entropy(model.ref_dist, distn(np.array(c, dtype=float))))
                cmp_.begin()
                exp = "drift" if cmp_.gt(div, crit) else None
                ctx.count("boundary_decisions")
                if abs(margin) <= 1e-4 * max(crit, 1e-12):
                    ctx.count("boundary_decisions_within_1e-4_of_critical")
                if 0 < abs(margin) <= 1e-5 * max(crit, 1e-12):
                    ctx.count("boundary_decisions_within_1e-5_of_critical")
                if 0 < abs(margin) <= 1e-6 * max(crit, 1e-12):
                    ctx.count("boundary_decisions_within_1e-6_of_critical")
                if margin == 0:
                    ctx.count("boundary_exact_ties")
                if det2.drift_state != exp:
                    if cmp_.near_indices():
                        ctx.count("near_ties_adopted")
                        continue
                    ctx.violation("C09/batch/decision_at_boundary",
                                  "constructed batch with leaf counts %r: divergence %.15g, critical value %.15g (difference %.3g) => expected %r, drift_state %r" % (
                                      list(c), div, crit, div - crit, exp, det2.drift_state), params=kw, reference=ref.tolist(), leaf_counts=list(c))
                    return
            rounds += 1
            ref = rng.normal(0, 1, size=(n, d))
    ctx.nontrivial = rounds >= 1
    ctx.sample = {"kind": "boundary-seeking batches", "params": kw, "reference_rows": n, "rounds": rounds}
    ctx.digest = "bd-%s-%s" % (sorted(kw.items()), case["seed"])


def draw_common(rng):
    return dict(alpha=float(rng.choice([0.01, 0.05, 0.1, 0.3, 0.5])), bootstrap_samples=int(rng.choice([10, 20, 40, 60])),
                count_ubound=int(rng.choice([1, 2, 3, 5, 10, 20])), cutpoint_proportion_lbound=float(rng.choice([2e-10, 2e-10, 0.1])))


def run_batch(case, ctx):
    if "literal" in case:
        lit = case["literal"]
        kw = dict(lit["params"])
        calls = [(c[0], np.array(c[1], dtype=float)) for c in lit["calls"]]
    else:
        rng = gen.rng_for(case["seed"])
        kw = draw_common(rng)
        d = int(rng.integers(1, 4))
        batches = gen.batch_sequence(rng, int(rng.integers(6, 26)), d, size=(6, 90), shift_p=0.4)
        if rng.random() < 0.12:
            # readings held in a narrow integer dtype, using the upper part of its range (ADC counts, pixel values, epoch seconds)
            idt = str(rng.choice(["uint8", "int16", "int32"]))
            top = {"uint8": 255, "int16": 32000, "int32": 2.1e9}[idt]
            lo_ = min(float(b.min()) for b in batches)
            hi_ = max(float(b.max()) for b in batches)
            batches = [np.round((b - lo_) / (hi_ - lo_ + 1e-300) * top * 0.5 + top * 0.5) for b in batches]
            ctx.count("integer_typed_batch_histories:" + idt)
        f32 = False
        if not locals().get("idt") and rng.random() < 0.12:
            # readings quantised to one decimal; the reference is held in double precision, the test batches arrive in single precision
            # (the oracle works with the exact values the single-precision numbers hold)
            f32 = True
            sc_ = float(np.std(np.vstack(batches))) or 1.0
            batches = [np.round(b / sc_, 1) for b in batches]
            batches = [batches[0]] + [b.astype(np.float32).astype(float) for b in batches[1:]]
            ctx.count("histories_with_single_precision_test_batches")
        # a pinned baseline: the very same array object is handed to set_reference again and again (after alarms, or just to re-baseline)
        pin = batches[0] if (rng.random() < 0.25 and not locals().get("idt") and not f32) else None
        if pin is not None:
            ctx.count("histories_with_a_pinned_baseline_object")
        calls = []
        explicit_first = (rng.random() < 0.5) or pin is not None
        for i, X in enumerate(batches):
            if i == 0 and explicit_first:
                calls.append(("set_reference", X))
                continue
            r = rng.random()
            if r > 0.93 and i > 1:
                calls.append(("reset", X))  # the user's own reset() (whatever was pending is dropped; the next batch starts over as reference)
                calls.append(("update", X))
            elif pin is not None and r < 0.25 and i > 1:
                calls.append(("set_reference", pin))
            elif r < 0.06 and i > 1:
                calls.append(("set_reference", X))
            elif r < 0.12 and i > 1:
                calls.append(("update", calls[-1][1].copy()))  # the previous batch again
            else:
                calls.append(("update", X))
    pin = locals().get("pin")
    idt = locals().get("idt") or case.get("literal", {}).get("dtype")
    f32 = locals().get("f32") or bool(case.get("literal", {}).get("float32_tests"))
    det = gen.construct(KdqTreeBatch, kw, case, ctx)
    cmp_ = Cmp()
    model = None
    pending_ref = None  # batch that must become the reference at the next update (after a drift)
    drifts = nodrift = 0
    log = []
    with rngtap.Tap() as tap:
        for i, (op, X) in enumerate(calls):
            np.random.seed(rngtap.seed_for(case.get("seed_key", case["id"]), i))
            if op == "reset":
                det.reset()
                model, pending_ref = None, None
                log.append(["reset", None])
                ctx.count("explicit_resets")
                continue
            mark = tap.mark()
            getattr(det, op)(X if (pin is not None and X is pin) else (X.astype(idt) if idt else (X.astype(np.float32) if (f32 and i > 0 and op == "update" and model is not None) else X.copy())))
            ev = tap.since(mark)
            log.append([op, X.tolist() if X.size <= 200 else "omitted(%s)" % (X.shape,)])
            base = dict(params=kw, calls=log, step=i, dtype=idt, float32_tests=f32)
            built = None
            if op == "set_reference":
                built = X
                pending_ref = None
                ctx.count("set_reference_calls")
            elif pending_ref is not None:
                built = pending_ref
                pending_ref = None
            elif model is None:
                built = X  # first update without a reference installs it
            if built is not None:
                old_crit = (model.crit, model.ref_data) if (model is not None and getattr(model, "ref_data", None) is not None) else None
                model = RefModel(built, kw["count_ubound"], kw["cutpoint_proportion_lbound"])
                model.ref_data = np.array(built, dtype=float, copy=True)
                rerr = model.reconcile(det)
                if rerr:
                    ctx.violation("C09/batch/reference_tree", "call %d (%s): %s" % (i, op, rerr), **base)
                    return
                if model.public:
                    ctx.count("reference_trees_with_other_shape_than_own_builder")
                dists, err = model.check_bootstrap(ev, kw["bootstrap_samples"], len(built))
                if err and not any(e[0] == "choice" for e in ev) and op == "set_reference" and old_crit is not None and \
                        old_crit[1].shape == model.ref_data.shape and np.array_equal(old_crit[1], model.ref_data):
                    # re-baselining on exactly the data of the current reference without a new bootstrap: the critical value already
                    # held is a (1 - alpha) quantile of that reference's resampling distribution - nothing in the property asks for a redraw
                    model.crit = old_crit[0]
                    ctx.count("critical_value_kept_for_identical_reference")
                    if det.drift_state is not None:
                        ctx.violation("C09/batch/state_after_reference", "call %d installs a reference but drift_state is %r" % (i, det.drift_state), **base)
                        return
                    continue
                if err and err.startswith("SCHEME"):
                    ctx.mark_inconclusive(err)
                    return
                if err:
                    ctx.violation("C09/batch/bootstrap", "call %d (%s): %s" % (i, op, err), **base)
                    return
                model.crit = critical(dists, kw["alpha"])
                ctx.count("bootstrap_blocks_parsed")
                if op == "set_reference" or (op == "update" and built is X):
                    if det.drift_state is not None:
                        ctx.violation("C09/batch/state_after_reference", "call %d installs a reference but drift_state is %r" % (i, det.drift_state), **base)
                        return
                    continue
            elif any(e[0] == "choice" for e in ev):
                ctx.violation("C09/batch/unexpected_rebuild", "call %d (%s) drew a bootstrap although the reference must be kept" % (i, op), **base)
                return
            # decision for test batch X against the current reference
            tc = model.public_test_counts(det) if model.public else model.counts_of(X)
            if model.public and int(tc.sum()) != len(X):
                ctx.violation("C09/batch/test_counts", "call %d: the public leaf counts of the test batch add up to %d, the batch has %d rows" % (i, int(tc.sum()), len(X)), **base)
                return
            div = float(scipy.stats.entropy(model.ref_dist, distn(tc)))
            cmp_.begin()
            exp = "drift" if cmp_.gt(div, model.crit) else None
            got = det.drift_state
            ctx.count("batch_decisions")
            if got != exp:
                if cmp_.near_indices():
                    ctx.count("near_ties_adopted")
                    exp = got
                else:
                    ctx.violation("C09/batch/decision",
                                  "call %d: drift_state %r; divergence of the batch over the reference leaves %.12g, critical value from the logged "
                                  "draws %.12g (alpha %s, %d leaves) => expected %r" % (i, got, div, model.crit, kw["alpha"], model.L, exp), **base)
                    return
            if i % 3 == 0 and not model.public:
                # the detector-level plot frame must show the reference and test counts of every node of the reference tree
                nodes = K.nodes_preorder(model.root)
                rc, tcn = K.fill_counts(model.root, model.ref), K.fill_counts(model.root, X)
                names = ["f%d" % j for j in range(X.shape[1])]
                df = det.to_plotly_dataframe(input_cols=names) if i % 2 else det.to_plotly_dataframe()
                ctx.count("detector_plot_frames_checked")
                if len(df) != len(nodes) or df["cell_count"].tolist() != [rc[id(nd)] for nd in nodes] or \
                        df["count_diff"].tolist() != [tcn[id(nd)] - rc[id(nd)] for nd in nodes]:
                    ctx.violation("C09/batch/plot_frame", "call %d: to_plotly_dataframe does not list the reference / test counts of the reference tree's nodes" % i, **base)
                    return
            if exp == "drift":
                drifts += 1
                ctx.count("batch_drifts")
                pending_ref = X
                if f32:
                    # the adopted batch is single precision: from here on the tree is built in single precision and where a point on a
                    # decimal grid falls relative to a midpoint is a matter of float32 rounding, not of the property - the history ends
                    ctx.count("single_precision_histories_ended_at_first_drift")
                    break
            else:
                nodrift += 1
    ctx.nontrivial = drifts >= 1 and nodrift >= 1
    ctx.sample = {"class": "KdqTreeBatch", "params": kw, "calls": [(op, list(X.shape)) for op, X in calls], "drifts": drifts}
    ctx.digest = "b-%s-%s" % (sorted(kw.items()), hash(tuple(X.tobytes() for _, X in calls)))


def stream_data(rng, d, w, n):
    """reference-like inliers with bursts of outliers so that the accumulated divergence crosses the bound both ways"""
    mu = rng.normal(0, 1, size=d)
    out = []
    while len(out) < n:
        r = rng.random()
        L = int(rng.integers(1, max(3, 2 * w)))
        if r < 0.45:
            seg = rng.normal(mu, 1, size=(L, d))
        elif r < 0.8:
            seg = rng.normal(mu + rng.choice([-1, 1]) * float(rng.choice([3, 6])), 0.5, size=(max(1, L // 3), d))
        elif r < 0.9:
            mu = mu + rng.choice([-1, 1], size=d) * float(rng.choice([2, 4]))
            seg = rng.normal(mu, 1, size=(L, d))
        else:
            seg = np.round(rng.normal(mu, 1, size=(L, d)))
        out.extend(seg)
    return np.array(out[:n])


class AdaptiveStream:
    """generated on the fly from the harness's private generator: inliers while a reference window is being collected,
    then alternating regimes of inliers / outliers whose lengths grow with the size of the accumulated test sample, so
    that the accumulated divergence rises above and falls below the critical value again and again"""

    def __init__(self, rng, d, n):
        self.rng, self.d, self.n = rng, d, n
        self.mu = rng.normal(0, 1, size=d)
        self.out_mode = False
        self.shift = rng.choice([-1, 1], size=d) * float(rng.choice([3, 6]))
        self.integer = rng.random() < 0.1
        # mixed mode: some rows are whole numbers; such rows are handed over as lists of Python ints, the others as lists of floats
        self.mixed = (not self.integer) and rng.random() < 0.25
        self.feedback = float(rng.choice([0.0, 0.5, 0.8, 0.95]))

    def __len__(self):
        return self.n

    def next(self, in_reference, ntest, last_above=None):
        rng = self.rng
        if in_reference:
            self.out_mode = bool(rng.random() < 0.5)
            x = rng.normal(self.mu, 1, size=self.d)
        else:
            if last_above is not None and rng.random() < self.feedback:
                # feedback: steer the accumulated divergence back across the bound (hovering histories)
                self.out_mode = not last_above
            elif rng.random() < 1.0 / (1.0 + 0.35 * ntest):
                self.out_mode = not self.out_mode
            if rng.random() < 0.03:
                self.mu = self.mu + rng.choice([-1, 1], size=self.d) * 2.0
            x = rng.normal(self.mu + (self.shift if self.out_mode else 0), 0.7 if self.out_mode else 1.0, size=self.d)
        if self.mixed and rng.random() < 0.3:
            return np.round(x)
        return np.round(x) if self.integer else x


def run_stream(case, ctx):
    if "literal" in case:
        lit = case["literal"]
        kw = dict(lit["params"])
        data = np.array(lit["data"], dtype=float)
    else:
        rng = gen.rng_for(case["seed"])
        kw = draw_common(rng)
        kw["window_size"] = int(rng.choice([2, 3, 5, 8, 8, 12, 12, 20, 40]))
        kw["persistence"] = float(rng.choice([0.0, 0.05, 0.15, 0.25, 0.25, 0.5, 0.5, 1.0]))
        d = int(rng.integers(1, 4))
        data = AdaptiveStream(rng, d, int(rng.integers(6, 14)) * kw["window_size"] + int(rng.integers(0, 30)))
    w, pers = kw["window_size"], kw["persistence"]
    det = gen.construct(KdqTreeStreaming, kw, case, ctx, keep=("window_size",))  # window_size is validated as a Python int
    cmp_ = Cmp()
    epoch = []
    model = None
    run = 0
    ntest = 0
    state = None
    drifts = 0
    interrupted = False
    was_above = False
    was_above_last = None
    with rngtap.Tap() as tap:
        seen = []
        for i in range(len(data)):
            x = data.next(model is None, ntest, was_above_last) if isinstance(data, AdaptiveStream) else data[i]
            seen.append(x)
            np.random.seed(rngtap.seed_for(case.get("seed_key", case["id"]), i))
            mark = tap.mark()
            if getattr(data, "mixed", False):
                # the same values as a plain list: whole-number rows become lists of ints (the container / dtype may vary per sample)
                row = [int(v) if float(v).is_integer() else float(v) for v in x]
                det.update([row] if i % 2 else row)
                ctx.count("stream_samples_as_mixed_lists")
            else:
                det.update(x.reshape(1, -1).copy())
            ev = tap.since(mark)
            base = dict(params=kw, data=[v.tolist() for v in seen], step=i)
            if state == "drift":  # start over with a new reference window
                epoch, model, run, ntest, was_above, was_above_last = [], None, 0, 0, False, None
            state = None
            got = det.drift_state
            if model is None:
                epoch.append(x)
                if len(epoch) == w:
                    model = RefModel(np.array(epoch), kw["count_ubound"], kw["cutpoint_proportion_lbound"])
                    rerr = model.reconcile(det)
                    if rerr:
                        ctx.violation("C09/stream/reference_tree", "sample %d completes the reference window: %s" % (i, rerr), **base)
                        return
                    if model.public:
                        ctx.count("reference_trees_with_other_shape_than_own_builder")
                    dists, err = model.check_bootstrap(ev, kw["bootstrap_samples"], w)
                    if err and err.startswith("SCHEME"):
                        ctx.mark_inconclusive(err)
                        return
                    if err:
                        ctx.violation("C09/stream/bootstrap", "sample %d completes the reference window: %s" % (i, err), **base)
                        return
                    model.crit = critical(dists, kw["alpha"])
                    ctx.count("bootstrap_blocks_parsed")
                elif any(e[0] == "choice" for e in ev):
                    ctx.violation("C09/stream/unexpected_rebuild", "sample %d drew a bootstrap before the reference window was complete" % i, **base)
                    return
                if got is not None:
                    ctx.violation("C09/stream/silent_period", "sample %d (reference window of the epoch): drift_state %r" % (i, got), **base)
                    return
                continue
            if any(e[0] == "choice" for e in ev):
                ctx.violation("C09/stream/unexpected_rebuild", "sample %d drew a bootstrap although the reference window is in use" % i, **base)
                return
            ntest += 1
            if model.public:
                model.test_counts = model.public_test_counts(det)
                if int(model.test_counts.sum()) != ntest:
                    ctx.violation("C09/stream/test_counts", "sample %d: the public leaf counts of the accumulated test samples add up to %d, %d samples arrived" % (
                        i, int(model.test_counts.sum()), ntest), **base)
                    return
            else:
                model.test_counts[K.route(model.root, x)[0]] += 1
            if ntest < w:
                if got is not None:
                    ctx.violation("C09/stream/silent_period", "sample %d (test sample %d of the epoch, window %d): drift_state %r" % (i, ntest, w, got), **base)
                    return
                continue
            div = float(scipy.stats.entropy(model.ref_dist, distn(model.test_counts)))
            cmp_.begin()
            above = cmp_.gt(div, model.crit)
            ctx.count("stream_decisions")

            def outcome(ab):
                r = run + 1 if ab else 0
                return r, ("drift" if ab and r > pers * w else None)

            r_, exp = outcome(above)
            if cmp_.near_indices():
                r2, exp2 = outcome(not above)
                if exp2 == exp:
                    # borderline divergence whose branch cannot be told from the published state: the run-length
                    # counter is undetermined from here on, the rest of the history is not judged
                    ctx.count("ambiguous_near_tie_histories_cut_short")
                    break
                if got != exp and got == exp2:
                    above, r_, exp = (not above), r2, exp2
                    ctx.count("near_ties_adopted")
            if above:
                ctx.count("stream_above_bound_steps")
                was_above = True
            else:
                if was_above and run > 0:
                    interrupted = True
                    ctx.count("stream_interrupted_runs")
                ctx.count("stream_below_bound_steps")
            run = r_
            was_above_last = above
            if got != exp:
                ctx.violation("C09/stream/decision",
                              "sample %d: drift_state %r; accumulated divergence %.12g vs critical value %.12g, %d consecutive samples above the bound, "
                              "persistence x window = %g => expected %r" % (i, got, div, model.crit, run, pers * w, exp), **base)
                return
            state = exp
            if exp == "drift":
                drifts += 1
                ctx.count("stream_drifts")
    if interrupted:
        ctx.count("stream_histories_with_interrupted_run")
    ctx.nontrivial = drifts >= 1
    ctx.sample = {"class": "KdqTreeStreaming", "params": kw, "samples": len(data), "drifts": drifts, "interrupted_run_seen": interrupted}
    ctx.digest = "s-%s-%s" % (sorted(kw.items()), hash(np.array(seen).tobytes()))
