"""C19 - MD3 warn / ask-the-oracle / confirm protocol.

The classifier and the margin function handed to MD3 are *recording probes*: every fit / predict / margin
call is logged at the library boundary.  A shadow model recomputes the reference statistics from the logged
cross-validation folds (which must partition the reference rows), the forgetting factor, the margin-density
recurrence, the warning and confirmation tests, and the protocol state; after every call - legal or illegal -
the full published state is compared.  Workload: every call sequence over a six-letter alphabet up to a bound,
from several reachable start states, plus long random interleavings."""
import copy
import itertools
import warnings

import numpy as np
import pandas as pd
from sklearn.base import BaseEstimator, ClassifierMixin

from menelaus.concept_drift import MD3

from .. import gen

ID = "C19"
LEVEL = "exploration"
ANCHOR_FILES = ["menelaus/concept_drift/md3.py"]
RULE = (
    "exhaustive cases: one per (configuration, start state, first two calls); every continuation over the alphabet {update "
    "in-margin, update out-of-margin, give label correct, give label incorrect, give label with wrong columns, update with two "
    "rows, give two labelled rows at once} up to the length bound is executed on (deep copies of) the real detector and compared call by call with the shadow "
    "model; random cases: long random interleavings with drawn sensitivity / oracle length / k / reference size.  Non-trivial = "
    "the case saw a warning, a refused call and a completed confirmation; distinct = distinct (configuration, start, prefix) "
    "resp. digest of the random call sequence."
)
ASSUMPTIONS = [
    "a deterministic threshold classifier (sklearn-clonable) and a margin function |x0 - thr| <= 0.5 stand for the user's model; "
    "the margin function receives (detector, sample, classifier) as the library passes them",
    "reference rows are pairwise distinct so that cross-validation folds can be identified from the logged arguments",
    "oracle_data_length_required >= k (cross-validation on the adopted reference needs k rows)",
]

LOG = []


class ProbeClf(BaseEstimator, ClassifierMixin):
    def __init__(self, thr=0.0):
        self.thr = thr

    def fit(self, X, y):
        LOG.append(("fit", np.asarray(X, dtype=float).copy(), np.asarray(y).copy()))
        self.classes_ = np.array([0, 1])
        return self

    def predict(self, X):
        X = np.asarray(X, dtype=float)
        LOG.append(("predict", X.copy()))
        return (X[:, 0] > self.thr).astype(int)


def margin_probe(*args):
    # the library hands over (detector, sample, classifier); its documentation speaks of (sample, classifier): accept both
    sample, clf = args[-2], args[-1]
    s = int(abs(float(sample[0]) - clf.thr) <= 0.5)
    LOG.append(("margin", np.asarray(sample, dtype=float).copy(), s))
    return s


COLS = ["a", "b", "y"]


LABEL_ORDER = [None]  # column order of labelled samples in the current case (None: the reference's order)
RENAME = [None]       # column labels of the current case: None (a / b / y) or a mapping to integer labels with the target labelled 0


def row(a, y=None, b=0.25, cols=None):
    d = {"a": [float(a)], "b": [float(b)]}
    if y is not None:
        d["y"] = [int(y)]
    df = pd.DataFrame(d)
    if y is not None and LABEL_ORDER[0]:
        df = df[list(LABEL_ORDER[0])]  # the reference's column names in another order (columns are what they are by name)
    if cols:
        df = df.rename(columns=cols)
    if RENAME[0]:
        df = df.rename(columns=RENAME[0])
    return df


class Model:
    """protocol + statistics; the statistics come from the logged folds"""

    def __init__(self, sensitivity, k, oracle_len):
        self.s, self.k, self.olen = sensitivity, k, oracle_len
        self.total = self.since = 0
        self.state = None
        self.waiting = False
        self.oracle = []
        self.ref = None

    def stats_from_log(self, log, data_features, data_target):
        """returns (stats, error).  log: probe events of one set_reference call"""
        N = len(data_features)
        rows = [tuple(r) for r in data_features]
        if len(set(rows)) != N:
            return None, None  # folds cannot be identified; caller skips
        folds = []
        cur = None
        for e in log:
            if e[0] == "fit":
                cur = {"train": [tuple(r) for r in e[1]], "ytrain": list(e[2]), "margins": [], "pred": None}
                folds.append(cur)
            elif e[0] == "margin" and cur is not None:
                cur["margins"].append((tuple(e[1]), e[2]))
            elif e[0] == "predict" and cur is not None:
                cur["pred"] = e[1]
        if len(folds) != self.k:
            return None, "the classifier was fitted %d times while summarising the reference, k is %d" % (len(folds), self.k)
        ylook = {r: int(t) for r, t in zip(rows, data_target)}
        seen = []
        mds, accs = [], []
        for f in folds:
            test = [m[0] for m in f["margins"]]
            if f["pred"] is None or [tuple(r) for r in f["pred"]] != test:
                return None, "a fold's accuracy was not measured on the rows its margin density was measured on"
            if set(test) & set(f["train"]) or set(test) | set(f["train"]) != set(rows) or len(test) + len(f["train"]) != N:
                return None, "a fold's training and test rows do not split the %d reference rows" % N
            if [ylook[r] for r in f["train"]] != [int(v) for v in f["ytrain"]]:
                return None, "a fold was trained on labels that are not those of its rows"
            seen += test
            mds.append(sum(m[1] for m in f["margins"]) / len(test))
            pred = (np.array([r[0] for r in test]) > 0.0).astype(int)
            accs.append(float(np.mean([int(p) == ylook[r] for p, r in zip(pred, test)])))
        if sorted(seen) != sorted(rows):
            return None, "the test parts of the %d folds do not partition the reference rows" % self.k
        return {"len": N, "md": float(np.mean(mds)), "md_std": float(np.std(mds)), "acc": float(np.mean(accs)), "acc_std": float(np.std(accs))}, None

    def adopt_reference(self, stats):
        self.ref = stats
        self.ff = (stats["len"] - 1) / stats["len"]
        self.md = stats["md"]

    def snapshot(self):
        return (self.state, self.waiting, len(self.oracle), self.md, self.total, self.since, tuple(sorted(self.ref.items())))


def impl_snapshot(det):
    rd = det.reference_distribution
    return (det.drift_state, bool(det.waiting_for_oracle), 0 if det.oracle_data is None else len(det.oracle_data), float(det.curr_margin_density),
            det.total_updates, det.updates_since_reset, tuple(sorted((k, float(v)) for k, v in rd.items())))


def snap_equal(a, b):
    if a[:3] != b[:3] or a[4:6] != b[4:6]:
        return False
    if abs(a[3] - b[3]) > 1e-12:
        return False
    return all(ka == kb and abs(va - vb) <= 1e-12 for (ka, va), (kb, vb) in zip(a[6], b[6]))


CALLS = ("U1", "U0", "L+", "L-", "Lx", "U2", "L2", "Le")


def call_args(c, m, thr=0.0):
    """concrete argument of a call letter.  in-margin sample: a = thr + 0.2; out-of-margin: a = thr + 2.0.  Labelled rows are made
    pairwise distinct (b grows with the number of labels held) and alternate between out-of-margin and in-margin positions"""
    if c == "U1":
        return "update", row(thr + 0.2), None
    if c == "U0":
        return "update", row(thr + 2.0), None
    if c == "U2":
        return "update", pd.concat([row(thr + 0.2), row(thr + 2.0)], ignore_index=True), None
    j = len(m.oracle)
    a = thr + (2.0 if j % 2 == 0 else 0.2)
    b = 0.25 + 0.001 * j
    if c == "L+":
        return "label", row(a, y=1, b=b), (a, b, 1)  # classifier predicts 1 for a > thr: correct label
    if c == "L-":
        return "label", row(a, y=0, b=b), (a, b, 0)  # incorrect
    if c == "Lx":
        return "label", row(a, y=1, b=b, cols={"b": "zzz"}), None
    if c == "Le":
        df = row(a, y=1, b=b)
        df["extra"] = 1.0  # every reference column plus one more: the columns differ from the reference's
        return "label", df, None
    if c == "L2":
        if j % 2 == 1:
            return "label", row(a, y=1, b=b).iloc[0:0], None  # no labelled row at all (an empty slice with the right columns)
        return "label", pd.concat([row(a, y=1, b=b), row(a, y=1, b=b + 0.5)], ignore_index=True), None  # two labelled rows at once
    raise ValueError(c)


def apply_call(det, m, c, ctx, base, counts):
    """apply one call letter to implementation and model, compare; returns False after a violation"""
    op, arg, lab = call_args(c, m)
    before_impl = impl_snapshot(det)
    before_model = m.snapshot()
    del LOG[:]
    raised = None
    try:
        if op == "update":
            det.update(arg)
        else:
            det.give_oracle_label(arg)
    except ValueError as e:
        raised = e
    log = list(LOG)
    # ---- specification
    expect_raise = False
    if op == "update":
        if m.waiting or len(arg) != 1:
            expect_raise = True
        else:
            if m.state == "drift":
                m.state = None
                m.since = 0
                m.md = m.ref["md"]
            m.total += 1
            m.since += 1
            sig = 1 if c == "U1" else 0
            m.md = m.ff * m.md + (1 - m.ff) * sig
            lvl = abs(m.md - m.ref["md"])
            thr_ = m.s * m.ref["md_std"]
            m.margin = lvl - thr_
            if lvl > thr_:
                m.state = "warning"
                m.waiting = True
                counts["warnings"] += 1
    else:
        if (not m.waiting) or c in ("Lx", "L2", "Le"):
            expect_raise = True
        else:
            m.state = None
            m.oracle.append(lab)
            counts["labels_accepted"] += 1
            if len(m.oracle) == m.olen:
                acc = float(np.mean([int((a > 0.0)) == y for a, b, y in m.oracle]))
                lvl = m.ref["acc"] - acc
                if lvl > m.s * m.ref["acc_std"]:
                    m.state = "drift"
                    counts["confirmed"] += 1
                else:
                    counts["ruled_out"] += 1
                feats = np.array([[a, b] for a, b, y in m.oracle])
                stats, err = m.stats_from_log(log, feats, [y for _, _, y in m.oracle])
                if err:
                    ctx.violation("C19/reference_statistics", "after the %d-th label: %s" % (m.olen, err), **base)
                    return False
                if stats is None:
                    stats = direct_stats(m.oracle, m.k)
                else:
                    counts["oracle_fold_logs_checked"] += 1
                m.adopt_reference(stats)
                m.oracle = []
                m.waiting = False
    # ---- comparison
    kind = "update" if op == "update" else "give_oracle_label"
    if expect_raise != (raised is not None):
        ctx.violation("C19/%s/refusal" % kind, "call %r (model state: waiting=%s, labels=%d): %s" % (
            c, before_model[1], before_model[2], "was accepted but must be refused" if expect_raise else "raised %r but must be accepted" % (raised,)), **base)
        return False
    after = impl_snapshot(det)
    if expect_raise:
        counts["refused:" + c] += 1
        if not snap_equal(after, before_impl):
            ctx.violation("C19/%s/refused_call_changed_state" % kind, "refused call %r changed the detector: %r -> %r" % (c, before_impl, after), **base)
            return False
        return True
    ms = m.snapshot()
    if not snap_equal(after, ms):
        fields = ("drift_state", "waiting_for_oracle", "len(oracle_data)", "curr_margin_density", "total_updates", "updates_since_reset", "reference_distribution")
        diff = [f for f, x, y in zip(fields, after, ms) if (abs(x - y) > 1e-12 if f == "curr_margin_density" else x != y)]
        ctx.violation("C19/%s/state" % kind, "after call %r: implementation %r, specification %r (differs in %s; margin %r)" % (
            c, after, ms, diff, getattr(m, "margin", None)), **base)
        return False
    return True


def direct_stats(oracle, k):
    """reference statistics of an adopted oracle batch, by the documented procedure (KFold(k, shuffle, seed 42) as the library does)"""
    from sklearn.model_selection import KFold

    N = len(oracle)
    feats = np.array([[a, b] for a, b, y in oracle])
    ys = np.array([y for _, _, y in oracle])
    mds, accs = [], []
    for tr, te in KFold(n_splits=k, random_state=42, shuffle=True).split(feats):
        mds.append(float(np.mean([int(abs(a) <= 0.5) for a in feats[te][:, 0]])))
        accs.append(float(np.mean((feats[te][:, 0] > 0).astype(int) == ys[te])))
    return {"len": N, "md": float(np.mean(mds)), "md_std": float(np.std(mds)), "acc": float(np.mean(accs)), "acc_std": float(np.std(accs))}


class FitClf(BaseEstimator, ClassifierMixin):
    """a classifier whose decision depends on what it was trained on: threshold = mean of the first feature of the training rows"""

    def fit(self, X, y):
        X = np.asarray(X, dtype=float)
        self.thr_ = float(X[:, 0].mean())
        self.classes_ = np.array([0, 1])
        return self

    def predict(self, X):
        return (np.asarray(X, dtype=float)[:, 0] > self.thr_).astype(int)


def fit_margin(*args):
    sample, clf = args[-2], args[-1]
    return int(abs(float(sample[0]) - clf.thr_) <= 0.5)


def run_refstats(case, ctx):
    """reference statistics with a training-dependent classifier and a margin function that reads it, on references with repeated rows
    (repeated rows land in different folds, where the fitted classifiers differ)"""
    from sklearn.model_selection import KFold

    rng = gen.rng_for(case["seed"], "refstats")
    k = int(rng.choice([2, 3, 5]))
    N = int(rng.integers(max(6, 2 * k), 40))
    a = np.round(rng.normal(0, 1, N), 1)
    a[rng.integers(0, N, size=N // 2)] = a[rng.integers(0, N, size=N // 2)]  # repeated rows
    b = np.zeros(N)
    y = ((a > 0).astype(int) ^ (rng.random(N) < 0.25)).astype(int)
    ref = pd.DataFrame({"a": a, "b": b, "y": y})
    det = MD3(clf=FitClf(), margin_calculation_function=fit_margin, sensitivity=1.0, k=k)
    det.set_reference(ref, target_name="y")
    feats, ys = ref[["a", "b"]].to_numpy(), ref["y"].to_numpy()
    mds, accs = [], []
    for tr, te in KFold(n_splits=k, random_state=42, shuffle=True).split(feats):
        thr = float(feats[tr][:, 0].mean())
        mds.append(float(np.mean([int(abs(v - thr) <= 0.5) for v in feats[te][:, 0]])))
        accs.append(float(np.mean((feats[te][:, 0] > thr).astype(int) == ys[te])))
    exp = {"md": float(np.mean(mds)), "md_std": float(np.std(mds)), "acc": float(np.mean(accs)), "acc_std": float(np.std(accs))}
    got = {k_: float(det.reference_distribution[k_]) for k_ in exp}
    ctx.count("reference_summaries_with_training_dependent_classifier")
    bad = [k_ for k_ in exp if abs(got[k_] - exp[k_]) > 1e-9]
    if bad:
        ctx.violation("C19/reference_statistics_fitted_classifier", "reference of %d rows (%d distinct), k=%d: %s; the %d-fold summary with the classifier refitted "
                      "per fold gives %s" % (N, len(set(a.tolist())), k, {k_: got[k_] for k_ in bad}, k, {k_: exp[k_] for k_ in bad}),
                      k=k, reference=ref.to_numpy().tolist())
        return
    ctx.nontrivial = len(set(a.tolist())) < N
    ctx.sample = {"kind": "reference summary, classifier refitted per fold", "rows": N, "distinct": len(set(a.tolist())), "k": k, "summary": got}
    ctx.digest = "refstats-%s" % (case["seed"],)


def make_reference(rng, N, acc_noise):
    a = rng.normal(0, 1, N)
    a[: N // 2] = rng.uniform(-0.45, 0.45, N // 2)  # in-margin rows so that margin density varies over folds
    b = rng.normal(0, 1, N)
    y = (a > 0).astype(int)
    flip = rng.random(N) < acc_noise
    y = np.where(flip, 1 - y, y)
    return pd.DataFrame({"a": a, "b": b, "y": y})


def build(cfg, ctx, base):
    RENAME[0] = {"y": 0, "a": 1, "b": 2} if cfg.get("int_labels") else None
    if RENAME[0]:
        ctx.count("cases_with_integer_column_labels_target_0")
    LABEL_ORDER[0] = cfg.get("label_order")
    if LABEL_ORDER[0]:
        ctx.count("cases_with_permuted_label_columns")
    rng = np.random.default_rng(cfg["ref_seed"])
    ref = make_reference(rng, cfg["N"], cfg["noise"])
    if cfg.get("int_reference"):
        # whole-number features held with an integer dtype; later samples are fractional floats
        a = np.round(ref["a"].to_numpy() * 2).astype(np.int64)
        ref = pd.DataFrame({"a": a, "b": np.arange(len(ref), dtype=np.int64) * 3 + 1, "y": ((a > 0).astype(int) ^ (rng.random(len(ref)) < cfg["noise"]))})
    if cfg.get("shuffled_index"):
        # row labels that are a permutation of 0..N-1 (e.g. after df.sample(frac=1) without reset_index)
        ref.index = rng.permutation(len(ref))
    det = MD3(clf=ProbeClf(0.0), margin_calculation_function=margin_probe, sensitivity=cfg["sensitivity"], k=cfg["k"],
              oracle_data_length_required=cfg["oracle_len"])
    if cfg["oracle_len"] is None:
        cfg = dict(cfg, oracle_len=cfg["N"])  # documented default: as many labelled samples as the reference has rows
    del LOG[:]
    if RENAME[0]:
        # a frame made from an array: integer column labels, the target in the first column under the label 0
        det.set_reference(ref[["y", "a", "b"]].rename(columns=RENAME[0]), target_name=0)
    else:
        det.set_reference(ref, target_name="y")
    m = Model(cfg["sensitivity"], cfg["k"], cfg["oracle_len"])
    stats, err = m.stats_from_log(list(LOG), ref[["a", "b"]].to_numpy(), ref["y"].to_numpy())
    if err:
        ctx.violation("C19/reference_statistics", "set_reference: " + err, **base)
        return None
    m.adopt_reference(stats)
    if not snap_equal(impl_snapshot(det), m.snapshot()):
        ctx.violation("C19/reference_statistics", "after set_reference: implementation %r, recomputed from the logged folds %r" % (impl_snapshot(det), m.snapshot()), **base)
        return None
    if abs(det.forgetting_factor - m.ff) > 1e-15:
        ctx.violation("C19/forgetting_factor", "forgetting factor %r, expected (N-1)/N = %r" % (det.forgetting_factor, m.ff), **base)
        return None
    return det, m


EXH_CFGS = [
    dict(N=6, k=2, oracle_len=2, sensitivity=1.0, noise=0.2, ref_seed=1),
    dict(N=5, k=2, oracle_len=3, sensitivity=0.5, noise=0.3, ref_seed=2, label_order=["b", "y", "a"]),
    dict(N=8, k=3, oracle_len=3, sensitivity=0.0, noise=0.2, ref_seed=3, int_labels=True),
    dict(N=6, k=3, oracle_len=4, sensitivity=2.0, noise=0.35, ref_seed=4),
]
STARTS = {"fresh": [], "waiting": None, "after_confirmation": None, "after_ruled_out": None}


def reach_start(det, m, start, cfg, ctx, base, counts):
    """drive to a named start state with legal calls; returns False if unreachable within 40 calls (case skipped)"""
    if start == "fresh":
        return True
    n = 0
    while not m.waiting and n < 40:
        # move the margin density away from the reference value
        c = "U0" if m.ref["md"] > 0.5 else "U1"
        if not apply_call(det, m, c, ctx, base, counts):
            return None
        n += 1
    if not m.waiting:
        return False
    if start == "waiting":
        return True
    lab = "L-" if start == "after_confirmation" else "L+"
    for _ in range(cfg["oracle_len"]):
        if not apply_call(det, m, lab, ctx, base, counts):
            return None
    return True


def cases(tier, seed):
    depth = 4 if tier == "quick" else 6
    acc_depth = 11 if tier == "quick" else 15
    out = []
    for ci, cfg in enumerate(EXH_CFGS):
        for start in STARTS:
            for pre in itertools.product(CALLS, repeat=2):
                out.append({"id": "exh/%d/%s/%s" % (ci, start, "".join(pre)), "kind": "exh", "cfg": cfg, "start": start, "prefix": list(pre),
                            "depth": depth, "acc_depth": acc_depth, "cost": (6 ** (depth - 2) + 2 ** acc_depth) / 500.0})
    nr = 200 if tier == "quick" else 2500
    out += [{"id": "rand/%d" % i, "kind": "rand", "seed": [seed, 19, i], "cost": 2} for i in range(nr)]
    out += [{"id": "refstats/%d" % i, "kind": "refstats", "seed": [seed, 190, i], "cost": 0.5} for i in range(60 if tier == "quick" else 600)]
    return out


def targets(tier):
    k = 1 if tier == "quick" else 10
    t = {"calls_compared": 200000 * k, "warnings": 5000 * k, "confirmed": 200 * k, "ruled_out": 200 * k, "labels_accepted": 5000 * k,
         "reference_fold_logs_checked": 500, "exhaustive_sequences": 50000 * (1 if tier == "quick" else 50), "state_graph_nodes": 50000 * k,
         "oracle_fold_logs_checked": 1000 * k, "reference_summaries_with_training_dependent_classifier": 40 * k}
    for c in ("U1", "U0", "L+", "L-", "Lx", "U2", "L2", "Le"):
        t["refused:" + c] = 50 * k
    return t


def run_case(case, ctx):
    warnings.simplefilter("ignore")
    import collections

    counts = collections.Counter()
    if case["kind"] == "refstats":
        return run_refstats(case, ctx)
    if case["kind"] == "exh":
        cfg = case["cfg"]
        base = dict(cfg=cfg, start=case["start"], prefix=case["prefix"])
        r = build(cfg, ctx, base)
        if r is None:
            return
        det, m = r
        ctx.count("reference_fold_logs_checked")
        ok = reach_start(det, m, case["start"], cfg, ctx, base, counts)
        if ok is None:
            return
        if ok is False:
            ctx.count("start_state_unreachable")
            return
        seqs = [0]
        acc_nodes = [0]

        def refused_by_spec(m, c):
            if c in ("U1", "U0", "U2"):
                return m.waiting or c == "U2"
            return (not m.waiting) or c in ("Lx", "L2", "Le")

        def explore(det, m, path, full_left, acc_left):
            """full_left: remaining length of the complete enumeration (every letter continued); acc_left: remaining number of
            *accepted* calls in the state-graph part (refused calls are checked at every node but, leaving the state unchanged,
            are not continued).  Never mutates det / m except through refused calls, which are verified to change nothing."""
            letters = CALLS if len(path) >= len(case["prefix"]) else [case["prefix"][len(path)]]
            for c in letters:
                b2 = dict(base, calls=path + [c])
                if refused_by_spec(m, c):
                    if not apply_call(det, m, c, ctx, b2, counts):
                        return False
                    counts["calls_compared"] += 1
                    if full_left > 1:
                        if not explore(det, m, path + [c], full_left - 1, 0):
                            return False
                    elif full_left == 1:
                        seqs[0] += 1
                else:
                    d2, m2 = copy.deepcopy(det), copy.deepcopy(m)
                    if not apply_call(d2, m2, c, ctx, b2, counts):
                        return False
                    counts["calls_compared"] += 1
                    acc_nodes[0] += 1
                    if full_left > 1 or acc_left > 1:
                        if not explore(d2, m2, path + [c], max(full_left - 1, 0), max(acc_left - 1, 0)):
                            return False
                    if full_left == 1:
                        seqs[0] += 1
            return True

        explore(det, m, [], case["depth"], case["acc_depth"])
        counts["state_graph_nodes"] += acc_nodes[0]
        counts["exhaustive_sequences"] += seqs[0]
        for k_, v in counts.items():
            ctx.count(k_, v)
        ctx.nontrivial = counts["warnings"] > 0 and any(k_.startswith("refused") for k_ in counts) and (counts["confirmed"] + counts["ruled_out"]) > 0
        ctx.sample = {"kind": "exhaustive", "cfg": cfg, "start": case["start"], "prefix": case["prefix"], "depth": case["depth"], "accepted_call_depth": case["acc_depth"],
                      "sequences": seqs[0], "warnings": counts["warnings"], "confirmed": counts["confirmed"], "ruled_out": counts["ruled_out"]}
        return
    rng = gen.rng_for(case["seed"])
    k = int(rng.choice([2, 3, 5]))
    cfg = dict(N=int(rng.integers(max(4, k), 30)), k=k, oracle_len=(None if rng.random() < 0.25 else int(rng.integers(k, 13))),
               sensitivity=float(rng.choice([0.0, 0.5, 1.0, 2.0, 3.0])),
               noise=float(rng.choice([0.1, 0.2, 0.35])), ref_seed=int(rng.integers(0, 10 ** 6)),
               int_reference=bool(rng.random() < 0.2), shuffled_index=bool(rng.random() < 0.3))
    lo_ = [None, None, ["b", "a", "y"], ["y", "b", "a"], ["b", "y", "a"]][int(rng.integers(0, 5))]
    if lo_:
        cfg["label_order"] = lo_
    if rng.random() < 0.2:
        cfg["int_labels"] = True
    base = dict(cfg=cfg)
    r = build(cfg, ctx, base)
    if r is None:
        return
    det, m = r
    if cfg["oracle_len"] is None:
        ctx.count("default_oracle_length_cases")
        if det.oracle_data_length_required != cfg["N"]:
            ctx.violation("C19/default_oracle_length", "oracle_data_length_required defaults to %r, the reference has %d rows" % (det.oracle_data_length_required, cfg["N"]), cfg=cfg)
            return
    ctx.count("reference_fold_logs_checked")
    calls = []
    p = rng.dirichlet([3, 3, 2, 2, 0.5, 0.5, 0.5, 0.5])
    for i in range(int(rng.integers(100, 400))):
        # bias towards legal calls so that the protocol advances
        if m.waiting:
            c = str(rng.choice(CALLS, p=[0.04, 0.04, 0.4, 0.4, 0.03, 0.03, 0.03, 0.03]))
        else:
            c = str(rng.choice(CALLS, p=p))
        calls.append(c)
        if not apply_call(det, m, c, ctx, dict(base, calls=list(calls)), counts):
            break
        counts["calls_compared"] += 1
    for k_, v in counts.items():
        ctx.count(k_, v)
    ctx.nontrivial = counts["warnings"] > 0 and (counts["confirmed"] + counts["ruled_out"]) > 0
    ctx.sample = {"kind": "random", "cfg": cfg, "calls": "".join(calls[:60]), "n_calls": len(calls), "warnings": counts["warnings"],
                  "confirmed": counts["confirmed"], "ruled_out": counts["ruled_out"]}
    ctx.digest = "r-%s-%s" % (sorted(cfg.items()), "".join(calls))


def finalize(counters, tier, records):
    return {"exhaustive": True,
            "exhaustive_scope": "all call sequences of length %d over 6 call kinds x 4 configurations x 4 start states (each continuation "
                                "executed on a deep copy of the real detector), continued as a state graph over accepted calls to %d accepted "
                                "calls with every refused call checked at every node; random interleavings are sampled" % (
                                    (4, 11) if tier == "quick" else (6, 15))}
