"""C10 - NN-space partitioner (membership, k-NN relation, distance axioms) and NN-DVI decisions recomputed
from the logged permutations."""
import warnings

import numpy as np
from scipy.stats import norm

import menelaus.data_drift.nndvi as nndvi_mod
from menelaus.data_drift import NNDVI
from menelaus.partitioners import NNSpacePartitioner

from .. import gen, rngtap
from ..models.base import Cmp

ID = "C10"
LEVEL = "exploration"
ANCHOR_FILES = ["menelaus/partitioners/NNSpacePartitioner.py", "menelaus/data_drift/nndvi.py"]
RULE = (
    "partitioner cases: one per generated pair of point sets (equal and unequal sizes, duplicates within and across samples, "
    "lattice points with distance ties, 1-4 dims, k from 1 to |D|): D / v1 / v2 / adjacency_matrix of the real object are checked "
    "against own set computations, the distance is recomputed, and symmetry (samples swapped), range and identity (same set with "
    "other multiplicities) are checked on further real builds.  NNDVI cases: one per batch sequence; each update runs under the "
    "RNG tap and a recording subclass of the partitioner, the threshold is recomputed from the logged permutations and the decision "
    "and reference replacement compared.  Non-trivial = unequal sizes or cross-sample duplicates (partitioner), at least one drift "
    "and one non-drift (NNDVI); distinct = digest of the inputs."
)
ASSUMPTIONS = [
    "sklearn.neighbors.NearestNeighbors, scipy.stats.norm are trusted; the k-NN relation is judged tie-tolerantly (any k nearest "
    "points including the point itself)",
    "NNDVI builds its partitioner through the module-level name NNSpacePartitioner and permutes through numpy.random.permutation; "
    "otherwise the NNDVI part is inconclusive",
]


def nnps_dist(M, v1, v2):
    a = v1 @ M
    b = v2 @ M
    return float(np.sum(np.abs(a - b) / (a + b)) / len(v1))


def check_partition(p, s1, s2, k, ctx, base, tag):
    """membership, adjacency and stored matrices of a built partitioner; returns True when all hold"""
    s1, s2 = np.asarray(s1, dtype=float), np.asarray(s2, dtype=float)
    rows = {tuple(r) for r in np.vstack([s1, s2])}
    D = np.asarray(p.D)
    drows = [tuple(r) for r in D]
    if len(set(drows)) != len(drows) or set(drows) != rows:
        ctx.violation("C10/%s/union" % tag, "D is not the de-duplicated union of the two samples (%d rows, %d distinct expected)" % (len(drows), len(rows)), **base)
        return False
    set1 = {tuple(r) for r in s1}
    set2 = {tuple(r) for r in s2}
    v1, v2 = np.asarray(p.v1), np.asarray(p.v2)
    bad1 = [i for i, r in enumerate(drows) if (v1[i] == 1.0) != (r in set1) or v1[i] not in (0.0, 1.0)]
    bad2 = [i for i, r in enumerate(drows) if (v2[i] == 1.0) != (r in set2) or v2[i] not in (0.0, 1.0)]
    if bad1 or bad2:
        ctx.violation("C10/%s/membership" % tag,
                      "sample sizes %d / %d: v1 wrong at %d rows of D, v2 wrong at %d rows (v1 must mark exactly the points of the first "
                      "sample, v2 exactly those of the second)" % (len(s1), len(s2), len(bad1), len(bad2)), **base)
        return False
    A = np.asarray(p.adjacency_matrix)
    n = len(D)
    if A.shape != (n, n):
        ctx.violation("C10/%s/adjacency" % tag, "adjacency matrix has shape %r for %d points" % (A.shape, n), **base)
        return False
    Df = D.astype(float)  # D may carry an integer dtype (typed batches): squared differences must not wrap
    dm = np.sqrt(((Df[:, None, :] - Df[None, :, :]) ** 2).sum(-1))
    scale = float(dm.max()) + 1e-300
    for i in range(n):
        row = A[i]
        if row.sum() != k or row[i] != 1 or set(np.unique(row)) - {0.0, 1.0}:
            ctx.violation("C10/%s/adjacency" % tag, "row %d of the adjacency matrix has %r ones (k=%d) / diagonal %r" % (i, row.sum(), k, row[i]), **base)
            return False
        kth = np.sort(dm[i])[k - 1]
        sel = np.where(row == 1)[0]
        if (dm[i][sel] > kth + 1e-9 * scale).any() or ((dm[i] < kth - 1e-9 * scale) & (row == 0)).any():
            ctx.violation("C10/%s/adjacency" % tag, "row %d is not a k-nearest-neighbour set (k=%d)" % (i, k), **base)
            return False
    return True


def cases(tier, seed):
    npairs = 500 if tier == "quick" else 40000
    nseq = 120 if tier == "quick" else 10000
    out = [{"id": "pair/%d" % i, "kind": "pair", "seed": [seed, 10, i]} for i in range(npairs)]
    out += [{"id": "nndvi/%d" % i, "kind": "nndvi", "seed": [seed, 110, i], "cost": 3} for i in range(nseq)]
    return out


def targets(tier):
    k = 1 if tier == "quick" else 10
    return {"pairs_checked": 400 * k, "pairs_unequal_sizes": 180 * k, "pairs_cross_duplicates": 120 * k, "pairs_with_distance_ties": 80 * k,
            "nndvi_updates": 700 * k, "nndvi_drifts": 200 * k, "nndvi_unequal_pairs": 300 * k, "permutations_parsed": 10000 * k,
            "nndvi_reference_kept": 300 * k, "nndvi_k_exceeds_test_batch": 40 * k}


def gen_pair(rng):
    d = int(rng.integers(1, 5))
    if rng.random() < 0.06:
        d = int(rng.integers(16, 25))  # wide data (more columns than a space-partitioning tree is usually given)
    n1 = int(rng.integers(2, 28))
    n2 = n1 if rng.random() < 0.3 else int(rng.integers(2, 28))
    lattice = rng.random() < 0.45
    g = (lambda m: rng.integers(0, 4, (m, d)).astype(float)) if lattice else (lambda m: rng.normal(size=(m, d)))
    s1, s2 = g(n1), g(n2)
    if rng.random() < 0.15:
        # map-like coordinates: a large offset and a fine grid (more than 24 significant bits; squared grid steps stay far above
        # the rounding of a double-precision distance computation)
        off = rng.uniform(2e4, 2e5, size=d).round(0)
        step = float(rng.choice([0.01, 0.02, 0.05]))
        s1 = off + rng.integers(0, 40, (n1, d)) * step
        s2 = off + rng.integers(0, 40, (n2, d)) * step
        lattice = "fine"
    elif rng.random() < 0.12:
        # time stamps: epoch seconds (about 1.7e9) at whole-second resolution, possibly next to an ordinary feature
        s1 = np.column_stack([1.7e9 + rng.integers(0, 600, n1)] + [rng.normal(size=n1) for _ in range(d - 1)]).astype(float)
        s2 = np.column_stack([1.7e9 + rng.integers(0, 600, n2)] + [rng.normal(size=n2) for _ in range(d - 1)]).astype(float)
        lattice = "timestamps"
    narrow = None
    if lattice is True and rng.random() < 0.3:
        # lattice points held in a narrow signed integer dtype and spread over most of its range
        narrow = str(rng.choice(["int8", "int16", "int32"]))
        top = {"int8": 120, "int16": 32000, "int32": 2.1e9}[narrow]
        s1 = np.round((s1 / 3.0 * 2 - 1) * top).astype(float)
        s2 = np.round((s2 / 3.0 * 2 - 1) * top).astype(float)
        lattice = "narrow:" + narrow
    cross = False
    if rng.random() < 0.35:
        m = max(1, min(n1, n2) // 2)
        s2[:m] = s1[rng.integers(0, n1, size=m)]
        cross = True
    if rng.random() < 0.25:
        s1[rng.integers(0, n1, size=max(1, n1 // 3))] = s1[0]
    return s1, s2, lattice, cross


def run_pair(case, ctx):
    if "literal" in case:
        lit = case["literal"]
        s1, s2, k = np.array(lit["s1"], dtype=float), np.array(lit["s2"], dtype=float), lit["k"]
        lattice = cross = False
    else:
        rng = gen.rng_for(case["seed"])
        s1, s2, lattice, cross = gen_pair(rng)
        U = np.unique(np.vstack([s1, s2]), axis=0)
        k = int(rng.integers(1, len(U) + 1))
    base = dict(s1=s1.tolist(), s2=s2.tolist(), k=k)
    if lattice == "fine":
        ctx.count("pairs_large_offset_fine_grid")
    if lattice == "timestamps":
        ctx.count("pairs_with_a_timestamp_feature")
    if s1.shape[1] >= 16:
        ctx.count("pairs_with_16plus_columns")
    p = NNSpacePartitioner(k)
    if isinstance(lattice, str) and lattice.startswith("narrow:"):
        ctx.count("pairs_in_narrow_integer_dtypes")
        p.build(s1.astype(lattice[7:]), s2.astype(lattice[7:]))
    else:
        p.build(s1.copy(), s2.copy())
    if "literal" not in case and case["seed"][-1] % 3 == 0:
        # another partitioner built on other samples before this one is read: objects must not share anything
        NNSpacePartitioner(1).build(s2[::-1] * 2.0 + 1.0, s1[:1] - 3.0)
        ctx.count("pairs_with_a_second_partitioner_alive")
    if not check_partition(p, s1, s2, k, ctx, base, "partitioner"):
        return
    ctx.count("pairs_checked")
    if len(s1) != len(s2):
        ctx.count("pairs_unequal_sizes")
    set1 = {tuple(r) for r in s1}
    if cross or any(tuple(r) in set1 for r in s2):
        ctx.count("pairs_cross_duplicates")
        cross = True
    D = np.asarray(p.D)
    Df_ = D.astype(float)
    dm = np.sqrt(((Df_[:, None, :] - Df_[None, :, :]) ** 2).sum(-1))
    srt = np.sort(dm, axis=1)
    if k < len(D) and (np.abs(srt[:, k] - srt[:, k - 1]) < 1e-12).any():
        ctx.count("pairs_with_distance_ties")
    dd = float(NNSpacePartitioner.compute_nnps_distance(p.nnps_matrix, p.v1, p.v2))
    own = nnps_dist(np.asarray(p.adjacency_matrix), np.asarray(p.v1), np.asarray(p.v2))
    if not (abs(dd - own) <= 1e-12 and -1e-15 <= dd <= 1 + 1e-12):
        ctx.violation("C10/partitioner/distance", "NNPS distance %r, recomputed from adjacency and membership %r (must lie in [0,1])" % (dd, own), **base)
        return
    q = NNSpacePartitioner(k)
    q.build(s2.copy(), s1.copy())
    d2 = float(NNSpacePartitioner.compute_nnps_distance(q.nnps_matrix, q.v1, q.v2))
    if abs(dd - d2) > 1e-12:
        ctx.violation("C10/partitioner/symmetry", "distance(s1, s2) = %r but distance(s2, s1) = %r (sizes %d / %d)" % (dd, d2, len(s1), len(s2)), **base)
        return
    # identity: the same set, with other multiplicities and another order
    u1 = np.unique(s1, axis=0)
    kk = min(k, len(u1))
    extra = s1[np.random.default_rng(len(s1)).integers(0, len(s1), size=1 + len(s1) // 2)]
    same = np.vstack([s1[::-1], extra])
    r = NNSpacePartitioner(kk)
    r.build(s1.copy(), same)
    d0 = float(NNSpacePartitioner.compute_nnps_distance(r.nnps_matrix, r.v1, r.v2))
    if d0 != 0:
        ctx.violation("C10/partitioner/identity", "distance between a sample and the same set of points (other multiplicities, %d vs %d rows) is %r, not 0" % (
            len(s1), len(same), d0), **base)
        return
    ctx.nontrivial = (len(s1) != len(s2)) or cross
    ctx.sample = {"kind": "pair", "sizes": [len(s1), len(s2)], "dims": s1.shape[1], "k": k, "lattice": bool(lattice), "cross_duplicates": bool(cross),
                  "distance": dd}
    ctx.digest = "p-%s-%s-%d" % (hash(s1.tobytes()), hash(s2.tobytes()), k)


class Recorder:
    built = []


def recording_partitioner():
    class Rec(NNSpacePartitioner):
        def build(self, sample1, sample2):
            super().build(sample1, sample2)
            Recorder.built.append((self, np.array(sample1, copy=True), np.array(sample2, copy=True)))

    return Rec


def run_nndvi(case, ctx):
    if not hasattr(nndvi_mod, "NNSpacePartitioner"):
        ctx.mark_inconclusive("menelaus.data_drift.nndvi no longer refers to NNSpacePartitioner by that module-level name")
        return
    if "literal" in case:
        lit = case["literal"]
        kw = dict(lit["params"])
        batches = [np.array(b, dtype=float) for b in lit["batches"]]
    else:
        rng = gen.rng_for(case["seed"])
        d = int(rng.integers(1, 4))
        batches = gen.batch_sequence(rng, int(rng.integers(6, 16)), d, size=(6, 34), shift_p=0.4, dup_p=0.3, integer_p=0.25)
        # k from 1 up to well beyond the size of a single test batch (the neighbourhood is taken over the pooled points)
        kw = dict(k_nn=int(rng.choice([1, 2, 3, 5, 8, 12, 20, 30])), sampling_times=int(rng.choice([10, 10, 20, 20, 40, 40, 130, 250])), alpha=float(rng.choice([0.01, 0.05, 0.2, 0.4])))
        r = rng.random()
        if r < 0.12:
            # the reference arrives as whole numbers with an integer dtype, later batches as floats
            ref_dtype = "int64"
            batches[0] = np.round(batches[0] * 3)
        elif r < 0.2:
            ref_dtype = "uint8"
            batches[0] = np.round(np.abs(batches[0]) * 20) % 256
            batches[1:] = [np.round(b * 20) + 256 * int(rng.integers(0, 3)) for b in batches[1:]]
    ref_dtype = locals().get("ref_dtype") or case.get("literal", {}).get("ref_dtype")
    if ref_dtype:
        ctx.count("reference_dtype:" + ref_dtype)
    det = gen.construct(NNDVI, kw, case, ctx)
    det.set_reference(batches[0].astype(ref_dtype) if ref_dtype else batches[0].copy())
    ref = batches[0]
    cmp_ = Cmp()
    orig = nndvi_mod.NNSpacePartitioner
    nndvi_mod.NNSpacePartitioner = recording_partitioner()
    drifts = kept = 0
    try:
        with rngtap.Tap() as tap:
            for i, X in enumerate(batches[1:]):
                if len(np.unique(np.vstack([ref, X]), axis=0)) < kw["k_nn"]:
                    continue  # fewer distinct points than neighbours asked for: outside the detector's domain
                np.random.seed(rngtap.seed_for(case.get("seed_key", case["id"]), i))
                Recorder.built = []
                mark = tap.mark()
                det.update(X.astype("int64") if ref_dtype == "uint8" else X.copy())
                ev = tap.since(mark, "permutation")
                base = dict(params=kw, batches=[b.tolist() for b in batches[: i + 2]], step=i, ref_dtype=ref_dtype)
                ctx.count("nndvi_updates")
                if len(ref) != len(X):
                    ctx.count("nndvi_unequal_pairs")
                if kw["k_nn"] > len(X):
                    ctx.count("nndvi_k_exceeds_test_batch")
                if len(Recorder.built) != 1:
                    ctx.mark_inconclusive("update built %d partitioners (expected exactly one)" % len(Recorder.built))
                    return
                p, a1, a2 = Recorder.built[0]
                if not (np.array_equal(a1, ref) and np.array_equal(a2, X)):
                    ctx.violation("C10/nndvi/compared_batches", "update %d did not compare the current reference (%d rows) with the given batch (%d rows): "
                                  "partitioner was built on %d / %d rows" % (i, len(ref), len(X), len(a1), len(a2)), **base)
                    return
                if not check_partition(p, ref, X, kw["k_nn"], ctx, base, "nndvi"):
                    return
                A, v1, v2 = np.asarray(p.adjacency_matrix), np.asarray(p.v1), np.asarray(p.v2)
                d_act = nnps_dist(A, v1, v2)
                if len(ev) != kw["sampling_times"]:
                    ctx.violation("C10/nndvi/sampling", "update %d drew %d permutations, sampling_times is %d" % (i, len(ev), kw["sampling_times"]), **base)
                    return
                ds = []
                for (_, a, k_, res) in ev:
                    arg = np.asarray(a[0])
                    res = np.asarray(res)
                    if not (np.array_equal(arg, v1) and np.array_equal(np.sort(res), np.sort(v1))):
                        ctx.violation("C10/nndvi/sampling", "update %d: a permutation was not a re-assignment of the reference indicator over the pooled points" % i, **base)
                        return
                    ds.append(nnps_dist(A, res, 1 - res))
                    ctx.count("permutations_parsed")
                mu, sd = float(np.mean(ds)), float(np.std(ds))
                theta = float(norm.ppf(1 - kw["alpha"], mu, sd))
                cmp_.begin()
                exp = "drift" if cmp_.gt(d_act, theta, 1.0, zero_decisive=False) else None
                got = det.drift_state
                if got != exp:
                    if cmp_.near_indices():
                        ctx.count("near_ties_adopted")
                        exp = got
                    else:
                        ctx.violation("C10/nndvi/decision", "update %d: drift_state %r; distance %.12g, threshold from the %d logged permutations %.12g (alpha %s) "
                                      "=> expected %r" % (i, got, d_act, len(ds), theta, kw["alpha"], exp), **base)
                        return
                newref = X if exp == "drift" else ref
                rb = np.asarray(det.reference_batch)
                if rb.shape != newref.shape or not np.array_equal(rb, newref):
                    ctx.violation("C10/nndvi/reference", "update %d (%s): reference_batch is not %s" % (
                        i, "drift" if exp else "no drift", "the test batch" if exp else "the previous reference"), **base)
                    return
                if exp == "drift":
                    drifts += 1
                    ctx.count("nndvi_drifts")
                else:
                    kept += 1
                    ctx.count("nndvi_reference_kept")
                ref = newref
    finally:
        nndvi_mod.NNSpacePartitioner = orig
    ctx.nontrivial = drifts >= 1 and kept >= 1
    ctx.sample = {"kind": "nndvi", "params": kw, "batch_sizes": [len(b) for b in batches], "drifts": drifts}
    ctx.digest = "n-%s-%s" % (sorted(kw.items()), hash(tuple(b.tobytes() for b in batches)))


def run_case(case, ctx):
    warnings.simplefilter("ignore")
    if case["kind"] == "pair":
        return run_pair(case, ctx)
    return run_nndvi(case, ctx)
