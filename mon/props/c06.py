"""C06 - Linear Four Rates: confusion matrix / rates / per-rate statistics, decisions against the bounds the
implementation obtained, bounds cache discipline, bounds recomputed exactly from the logged Bernoulli draws,
retraining_recs, untracked rates (twin), parallelize=True against the sequential trace (stress axis)."""
import itertools
import sys
import time
import warnings

import numpy as np

from menelaus.concept_drift import LinearFourRates

from .. import gen, rngtap

ID = "C06"
LEVEL = "exploration"
ANCHOR_FILES = ["menelaus/concept_drift/lfr.py"]
RULE = (
    "one case per generated (y_true, y_pred) in {0,1}^2 sequence with shifting confusion profiles x time_decay_factor x levels x "
    "burn_in x subsample x round_val x num_mc x one of the 15 non-empty subsets of tracked rates; the detector runs under the numpy "
    "RNG tap with an instance wrapper recording every _sim_bounds call; a shadow model keeps the confusion matrix (pseudo-count 1), "
    "the four rates and the per-rate statistic updated only when that rate changed, its own bounds cache keyed like the documented "
    "one, and requires state / all_drift_states / retraining_recs to follow from the bounds obtained; every simulated bound is "
    "recomputed from the logged Bernoulli draws (num_mc draws of size denominator with p = the rate, documented weights and "
    "percentiles).  Twin cases: histories that differ only in what untracked rates see must give identical traces; parallelize=True "
    "with a deterministic bounds stub must give the sequential trace.  Non-trivial = at least one drift and a later decision; "
    "distinct = digest of (parameters, sequence)."
)
ASSUMPTIONS = [
    "numpy.random.binomial draws Bernoulli(p) as asked (the *use* of the draws is recomputed exactly; their distribution is numpy's)",
    "the detector obtains bounds through its _sim_bounds method (instance wrapper); if that attribute disappears the case is "
    "inconclusive",
    "labels are 0/1 ints (encodings are C16's business)",
]
RATES = ("tpr", "tnr", "ppv", "npv")


def four(conf):
    tn, fn, fp, tp = conf[0][0], conf[0][1], conf[1][0], conf[1][1]
    return ({"tpr": tp / (tp + fn), "tnr": tn / (tn + fp), "ppv": tp / (fp + tp), "npv": tn / (tn + fn)},
            {"tpr": tp + fn, "tnr": tn + fp, "ppv": fp + tp, "npv": tn + fn})


class LFRModel:
    def __init__(self, kw):
        self.eta = kw["time_decay_factor"]
        self.burn_in, self.subsample, self.round_val = kw["burn_in"], kw["subsample"], kw["round_val"]
        self.tracked = list(kw["rates_tracked"])
        self.cache = {}
        self.total = 0
        self.history = []
        self._new_epoch()

    def _new_epoch(self):
        self.conf = [[1, 1], [1, 1]]
        self.R = {r: 0.5 for r in RATES}
        self.n = 0
        self.state = None
        self.recs = [None, None]

    def update(self, yt, yp, sims):
        """sims: list of (est_rate, denom, bounds) calls the implementation made during this update, in order.
        returns None or an error string about cache discipline"""
        if self.state == "drift":
            self._new_epoch()
        self.n += 1
        self.total += 1
        old, _ = four(self.conf)
        self.conf[yp][yt] += 1
        new, den = four(self.conf)
        warn = alarm = False
        sims = list(sims)
        self.responsible = []
        err = None
        for r in self.tracked:
            if new[r] != old[r]:
                self.R[r] = self.eta * self.R[r] + (1 - self.eta) * (1 if yt == yp else 0)
            if self.n > self.burn_in and self.n % self.subsample == 0:
                # numpy scalar rounding (np.float64.__round__), as the rates are numpy scalars in the detector
                key = (float(round(np.float64(new[r]), self.round_val)), int(round(np.int64(den[r]), self.round_val)))
                if key not in self.cache:
                    if not sims:
                        return "no simulation was run for the new (rate, denominator) key %r of %s" % (key, r)
                    p, N, b = sims.pop(0)
                    if p != new[r] or N != den[r]:
                        return "simulation called with (%r, %r) for %s whose rate / denominator are (%r, %r)" % (p, N, r, new[r], den[r])
                    self.cache[key] = b
                    self.sim_used = True
                else:
                    self.cache_hits = getattr(self, "cache_hits", 0) + 1
                b = self.cache[key]
                w = bool((self.R[r] < b["lb_warn"]) | (self.R[r] > b["ub_warn"]))
                a = bool((self.R[r] < b["lb_detect"]) | (self.R[r] > b["ub_detect"]))
                warn |= w
                alarm |= a
                if a:
                    self.responsible.append(r)
        if sims:
            return "%d simulations were run that no tracked rate needed (first: rate %r, denominator %r)" % (len(sims), sims[0][0], sims[0][1])
        self.state = "drift" if alarm else ("warning" if warn else None)
        self.history.append(self.state)
        if self.state == "warning" and self.recs[0] is None:
            self.recs[0] = self.total - 1
        if self.state == "drift":
            self.recs[1] = self.total - 1
            if self.recs[0] is None:
                self.recs[0] = self.total - 1
        return err


def check_bounds(events, p, N, bounds, kw):
    """recompute the four bounds from the logged Bernoulli draws; returns None, an error string, or a string starting with 'SCHEME'
    when the replicates were drawn in a layout the parser does not know (inconclusive, not a violation)"""
    ev = [e for e in events if e[0] == "binomial"]
    if not ev:
        return "SCHEME: no numpy.random.binomial draw was logged for a simulation"
    reps = []
    for (_, a, k, res) in ev:
        n_ = k.get("n", a[0] if a else None)
        p_ = k.get("p", a[1] if len(a) > 1 else None)
        if n_ != 1 or p_ != p:
            return "a replicate was drawn as binomial(n=%r, p=%r); expected Bernoulli(p=%r)" % (n_, p_, p)
        reps.append(np.asarray(res))
    total = sum(r.size for r in reps)
    if total != kw["num_mc"] * N:
        return "%d Bernoulli values were drawn in %d call(s) for one simulation; num_mc=%d replicates of %d trials need %d" % (
            total, len(reps), kw["num_mc"], N, kw["num_mc"] * N)
    if len(reps) == kw["num_mc"] and all(r.shape == (N,) for r in reps):
        B = np.vstack(reps) if N else np.zeros((kw["num_mc"], 0))
    elif len(reps) == 1 and reps[0].shape == (kw["num_mc"], N):
        B = reps[0]
    elif len(reps) == 1 and reps[0].shape == (N, kw["num_mc"]):
        B = reps[0].T
    else:
        return "SCHEME: drawing scheme not understood (%d calls, shapes %r)" % (len(reps), [r.shape for r in reps][:3])
    eta = kw["time_decay_factor"]
    w = np.array([eta ** (N - i) for i in range(1, N + 1)])
    S = [(1 - eta) * float(np.sum(w * b)) for b in B]
    Srev = [(1 - eta) * float(np.sum(w[::-1] * b)) for b in B]
    wl, dl = kw["warning_level"], kw["detect_level"]
    for vals in (S, Srev):
        exp = {"lb_warn": np.percentile(vals, wl * 100), "ub_warn": np.percentile(vals, 100 - wl * 100),
               "lb_detect": np.percentile(vals, dl * 100), "ub_detect": np.percentile(vals, 100 - dl * 100)}
        if all(abs(float(bounds[k]) - float(exp[k])) <= 1e-12 for k in exp):
            return None
    return "bounds %s are not the documented percentiles %s of the %d logged replicates (rate %r, denominator %d)" % (
        {k: float(v) for k, v in bounds.items()}, {k: float(v) for k, v in exp.items()}, len(S), p, N)


def cases(tier, seed):
    n = 260 if tier == "quick" else 3000
    out = [{"id": "seq/%d" % i, "kind": "seq", "seed": [seed, 6, i], "cost": 2} for i in range(n)]
    out += [{"id": "twin/%d" % i, "kind": "twin", "seed": [seed, 66, i], "cost": 2} for i in range(n // 4)]
    out += [{"id": "par/%d" % i, "kind": "par", "seed": [seed, 666, i], "cost": 3} for i in range(n // 8)]
    return out


def targets(tier):
    k = 1 if tier == "quick" else 10
    t = {"samples": 30000 * k, "drifts": 300 * k, "warnings": 300 * k, "bound_calls_checked": 2000 * k, "cache_hits": 2000 * k,
         "twin_pairs": 40 * k, "parallel_traces_compared": 20 * k, "histories_3plus_epochs": 40 * k}
    for r in RATES:
        t["drift_by:" + r] = 30 * k
    return t


def draw_params(rng):
    subs = [list(c) for k in range(1, 5) for c in itertools.combinations(RATES, k)]
    # levels above 0.5 are unusual but accepted: the "bounds" then cross (lower above upper) and nearly every checked sample alarms
    dl = float(rng.choice([0.005, 0.02, 0.05, 0.05, 0.2, 0.2, 0.7, 0.9]))
    return dict(time_decay_factor=float(rng.choice([0.5, 0.9, 0.99])), warning_level=float(min(0.45, dl * float(rng.choice([1, 2, 4])))),
                detect_level=dl, burn_in=int(rng.choice([0, 1, 3, 10, 30, 50])), num_mc=int(rng.choice([50, 100, 200, 400])),
                subsample=int(rng.choice([1, 1, 2, 3, 5])), rates_tracked=subs[int(rng.integers(0, len(subs)))],
                parallelize=False, round_val=int(rng.choice([1, 2, 3, 4])))


def gen_pairs(rng, n, pure=None):
    """(y_true, y_pred) with piecewise-constant class prior and per-class error rates"""
    out = []
    pure = (rng.random() < 0.15) if pure is None else pure  # long runs of a single outcome: rates that round to exactly 0 or 1 while the denominators grow
    while len(out) < n:
        L = int(rng.integers(10, 120))
        prior = float(rng.choice([0.2, 0.5, 0.8]))
        e1, e0 = float(rng.choice([0.02, 0.1, 0.3, 0.6])), float(rng.choice([0.02, 0.1, 0.3, 0.6]))
        if pure:
            prior = float(rng.choice([0.0, 1.0, 0.5, 0.5]))
            e1, e0 = float(rng.choice([0.0, 1.0])), float(rng.choice([0.0, 1.0]))
        for _ in range(L):
            yt = int(rng.random() < prior)
            err = rng.random() < (e1 if yt else e0)
            out.append((yt, yt ^ int(err)))
    return out[:n]


def drive(det, model, pairs, kw, ctx, case, check_sims=True, label="seq", resets=()):
    """runs det over pairs under the tap; returns (trace, drifts) or None after a violation"""
    calls = []
    if not hasattr(det, "_sim_bounds"):
        ctx.mark_inconclusive("LinearFourRates no longer has a _sim_bounds method to observe")
        return None
    orig = det._sim_bounds
    tapref = {}

    def wrapper(est_rate, denom):
        mark = tapref["tap"].mark()
        r = orig(est_rate, denom)
        calls.append((est_rate, int(denom), dict(r), tapref["tap"].since(mark)))
        return r

    det._sim_bounds = wrapper
    trace = []
    drifts = 0
    # the same 0/1 labels as Python ints, as booleans, or as numpy bool / 1-element array (the confusion cell must not depend on it)
    label_mode = len(pairs) % 3 if label == "seq" else 0
    ctx.count("label_mode:%d" % label_mode)
    with rngtap.Tap() as tap:
        tapref["tap"] = tap
        for i, (yt, yp) in enumerate(pairs):
            if i in resets:
                # the user's own reset() between two samples: a new epoch starts here (confusion matrix, statistics, schedule)
                det.reset()
                model._new_epoch()
                ctx.count("explicit_resets")
            np.random.seed(rngtap.seed_for(case.get("seed_key", case["id"]), i))
            del calls[:]
            if label_mode == 1:
                det.update(bool(yt), bool(yp))
            elif label_mode == 2:
                det.update(np.bool_(yt), np.array([yp]))
            else:
                det.update(yt, yp)
            st = det.drift_state
            base = dict(params=kw, pairs=pairs[: i + 1], step=i, resets=sorted(r for r in resets if r <= i))
            err = model.update(yt, yp, [(c[0], c[1], c[2]) for c in calls])
            ctx.count("samples")
            if err:
                ctx.violation("C06/bounds_cache", "sample %d: %s" % (i, err), **base)
                return None
            if check_sims:
                for (p, N, b, ev) in calls:
                    e2 = check_bounds(ev, p, N, b, kw)
                    ctx.count("bound_calls_checked")
                    if e2 and e2.startswith("SCHEME"):
                        ctx.mark_inconclusive(e2)
                        return None
                    if e2:
                        ctx.violation("C06/sim_bounds", "sample %d: %s" % (i, e2), **base)
                        return None
                    if (kw["warning_level"] <= 0.5 and not b["lb_warn"] <= b["ub_warn"]) or (kw["detect_level"] <= 0.5 and not b["lb_detect"] <= b["ub_detect"]):
                        ctx.violation("C06/sim_bounds_orientation", "sample %d: lower bound above upper bound: %r" % (i, b), **base)
                        return None
            if st != model.state:
                ctx.violation("C06/state", "sample %d (epoch position %d, pair %r): drift_state %r, specification %r; statistics %r, tracked %r" % (
                    i, model.n, (yt, yp), st, model.state, {r: round(model.R[r], 6) for r in model.tracked}, model.tracked), **base)
                return None
            recs = [None if v is None else int(v) for v in list(det.retraining_recs)]
            if recs != model.recs:
                ctx.violation("C06/retraining_recs", "sample %d: retraining_recs %r, specification %r (state %r)" % (i, recs, model.recs, st), **base)
                return None
            if list(det.all_drift_states) != model.history:
                ctx.violation("C06/all_drift_states", "sample %d: all_drift_states is not the history of reported states" % i, **base)
                return None
            trace.append(st)
            if st == "drift":
                drifts += 1
                ctx.count("drifts")
                for r in model.responsible:
                    ctx.count("drift_by:" + r)
            elif st == "warning":
                ctx.count("warnings")
    ctx.count("cache_hits", getattr(model, "cache_hits", 0))
    return trace, drifts


def run_case(case, ctx):
    warnings.simplefilter("ignore")
    if case["kind"] == "twin":
        return run_twin(case, ctx)
    if case["kind"] == "par":
        return run_par(case, ctx)
    if "literal" in case:
        kw = dict(case["literal"]["params"])
        pairs = [tuple(p) for p in case["literal"]["pairs"]]
    else:
        rng = gen.rng_for(case["seed"])
        kw = draw_params(rng)
        pure = bool(rng.random() < 0.15)
        if pure:
            # coarse rounding with rates stuck at the ends of the scale: cache keys (1.0, N) and (0.0, N + 1) occur side by side
            kw["round_val"] = 1
            kw["burn_in"] = min(kw["burn_in"], 10)
            if rng.random() < 0.7:
                kw["rates_tracked"] = list(RATES)
            ctx.count("pure_outcome_histories")
        pairs = gen_pairs(rng, int(rng.integers(120, 320)), pure=pure)
    det = gen.construct(LinearFourRates, kw, case, ctx)
    model = LFRModel(kw)
    resets = set(case.get("literal", {}).get("resets", []))
    if "literal" not in case and len(pairs) % 10 < 4:
        resets = {int(v) for v in np.random.default_rng([len(pairs), 6]).integers(1, len(pairs), size=1 + len(pairs) % 3)}
    r = drive(det, model, pairs, kw, ctx, case, resets=resets)
    if r is None:
        return
    trace, drifts = r
    if drifts >= 2:
        ctx.count("histories_3plus_epochs")
    ctx.nontrivial = drifts >= 1 and len(trace) > trace.index("drift") + kw["burn_in"] + 1
    ctx.sample = {"params": kw, "samples": len(pairs), "drifts": drifts, "warnings": trace.count("warning"), "first_pairs": pairs[:10]}
    ctx.digest = "%s-%s" % (sorted((k, str(v)) for k, v in kw.items()), hash(tuple(pairs)))


def run_twin(case, ctx):
    """single tracked rate: samples that this rate does not see get other predictions in the twin"""
    rng = gen.rng_for(case["seed"])
    kw = draw_params(rng)
    rate = str(rng.choice(RATES))
    kw["rates_tracked"] = [rate]
    pairs = gen_pairs(rng, int(rng.integers(120, 260)))
    # which samples does the rate see?  tpr: y_true=1; tnr: y_true=0; ppv: y_pred=1; npv: y_pred=0
    twin = []
    for (yt, yp) in pairs:
        if rate == "tpr" and yt == 0 or rate == "tnr" and yt == 1:
            twin.append((yt, int(rng.integers(0, 2))))  # other prediction for a sample of the other class
        elif rate == "ppv" and yp == 0 or rate == "npv" and yp == 1:
            twin.append((int(rng.integers(0, 2)), yp))  # other label for a sample predicted into the other class
        else:
            twin.append((yt, yp))
    traces = []
    for label, seq in (("a", pairs), ("b", twin)):
        det = LinearFourRates(**kw)
        model = LFRModel(kw)
        r = drive(det, model, seq, kw, ctx, case, check_sims=False, label=label)
        if r is None:
            return
        traces.append(r[0])
    ctx.count("twin_pairs")
    if traces[0] != traces[1]:
        j = next(i for i, (a, b) in enumerate(zip(*traces)) if a != b)
        ctx.violation("C06/untracked_rate_influence", "tracking only %s: two histories that differ only in samples this rate does not see give different "
                      "states at sample %d (%r vs %r)" % (rate, j, traces[0][j], traces[1][j]), params=kw, pairs=pairs[: j + 1], twin=twin[: j + 1])
        return
    ctx.nontrivial = "drift" in traces[0] and pairs != twin
    ctx.sample = {"kind": "twin", "tracked": rate, "params": kw, "samples": len(pairs), "differing_samples": sum(a != b for a, b in zip(pairs, twin))}
    ctx.digest = "tw-%s-%s" % (rate, hash(tuple(pairs)))


def stub_bounds(eta, wl, dl):
    """deterministic bounds (normal approximation of the weighted Bernoulli sum): a function of (rate, denominator) only"""
    from scipy.stats import norm

    def f(est_rate, denom):
        w = np.array([eta ** (denom - i) for i in range(1, denom + 1)]) * (1 - eta)
        mu = est_rate * w.sum()
        sd = float(np.sqrt(est_rate * (1 - est_rate) * np.sum(w ** 2))) + 1e-12
        return {"lb_warn": mu + norm.ppf(wl) * sd, "ub_warn": mu + norm.ppf(1 - wl) * sd,
                "lb_detect": mu + norm.ppf(dl) * sd, "ub_detect": mu + norm.ppf(1 - dl) * sd}

    return f


def run_par(case, ctx):
    """stress axis: parallelize=True (two joblib threads over the tracked rates) against the sequential trace, bounds stubbed
    deterministically; sys.monitoring LINE events on lfr.py inject yields (sleep(0)) to vary the interleaving"""
    rng = gen.rng_for(case["seed"])
    kw = draw_params(rng)
    if case["seed"][-1] % 2 == 0:
        kw["rates_tracked"] = list(RATES)  # otherwise the drawn subset (possibly a single rate): untracked rates must stay out in both modes
    else:
        ctx.count("parallel_runs_on_a_subset_of_rates")
    pairs = gen_pairs(rng, int(rng.integers(60, 140)))
    stub = stub_bounds(kw["time_decay_factor"], kw["warning_level"], kw["detect_level"])
    seq = LinearFourRates(**kw)
    seq._sim_bounds = stub
    t_seq = []
    for yt, yp in pairs:
        seq.update(yt, yp)
        t_seq.append((seq.drift_state, [None if v is None else int(v) for v in seq.retraining_recs]))
    kw2 = dict(kw, parallelize=True)
    par = LinearFourRates(**kw2)
    par._sim_bounds = stub
    import menelaus.concept_drift.lfr as lfr_mod

    mon = sys.monitoring
    tool = 3
    yields = [0]
    yrng = np.random.default_rng(case["seed"])
    target = lfr_mod.__file__
    installed = False
    try:
        mon.use_tool_id(tool, "verif-yield")
        installed = True

        def on_line(code, line):
            if code.co_filename != target:
                return mon.DISABLE
            if yrng.random() < 0.15:
                yields[0] += 1
                time.sleep(0)

        mon.register_callback(tool, mon.events.LINE, on_line)
        mon.set_events(tool, mon.events.LINE)
    except ValueError:
        pass
    try:
        t_par = []
        for yt, yp in pairs:
            par.update(yt, yp)
            t_par.append((par.drift_state, [None if v is None else int(v) for v in par.retraining_recs]))
    finally:
        if installed:
            mon.set_events(tool, 0)
            mon.register_callback(tool, mon.events.LINE, None)
            mon.free_tool_id(tool)
    ctx.count("parallel_traces_compared")
    ctx.count("yields_injected", yields[0])
    if t_seq != t_par:
        j = next(i for i, (a, b) in enumerate(zip(t_seq, t_par)) if a != b)
        ctx.violation("C06/parallel_trace", "parallelize=True differs from the sequential run at sample %d: %r vs %r" % (j, t_par[j], t_seq[j]),
                      params=kw, pairs=pairs[: j + 1])
        return
    ctx.nontrivial = any(s == "drift" for s, _ in t_seq)
    ctx.sample = {"kind": "parallel", "params": kw, "samples": len(pairs), "yields_injected": yields[0]}
    ctx.digest = "par-%s" % hash(tuple(pairs))
