"""C15 - detectors and injectors never modify, or keep live references to, caller data (fault enumeration:
the caller overwrites what it passed after every call position).

(a) byte-level snapshot of every argument before / after each call;
(b) alias twin: run A hands over the caller's own objects and overwrites them in place with garbage right after the call
    (and re-uses one buffer object for single observations), run B hands over private copies and never touches them; every
    output of A must equal B's;
(c) injectors: result is a new object of the same container type, input bit-for-bit unchanged (icontract postconditions of
    C20) on further container layouts (Fortran order, strided views, mixed-dtype frames, non-default index)."""
import copy
import warnings

import numpy as np
import pandas as pd

from .. import gen, rngtap, zoo
from . import c20

ID = "C15"
LEVEL = "fault_enumeration"
ANCHOR_FILES = ["menelaus/detector.py", "menelaus/change_detection/cusum.py", "menelaus/data_drift/nndvi.py", "menelaus/data_drift/kdq_tree.py",
                "menelaus/data_drift/histogram_density_method.py", "menelaus/data_drift/pca_cd.py", "menelaus/injection/injector.py",
                "menelaus/injection/label_manipulation.py"]
RULE = (
    "detector cases: one per (detector, parameters, history, container layout - ndarray C order / Fortran order / strided view / "
    "read-only view of writable memory / single-dtype DataFrame (one column included) / mixed-dtype DataFrame / re-used one-row buffer (ndarray, read-only view, DataFrame) / 1-element label arrays): the "
    "caller-side overwrite is applied after *every* call position (reference batches, test batches, single observations) in run A "
    "and never in run B (private copies); arguments are snapshotted around every call.  Injector cases: every injector on the further "
    "layouts.  Non-trivial = the history contains a drift and at least 5 overwrites happened before a later decision; distinct = "
    "(detector, layout, parameters, history digest)."
)
ASSUMPTIONS = [
    "MD3.give_oracle_label keeps the caller's frame, but that method is outside the property's list of calls (update, set_reference, "
    "injectors); MD3 is not driven here",
    "garbage written by the caller is finite (1e6-scale) so that a live reference changes later outputs instead of crashing",
]

LAYOUTS_X = ["c_order", "fortran", "view", "readonly_view", "frame", "mixed_frame", "buffer", "frame_buffer", "readonly_buffer", "zero_d_buffer", "one_d_view", "series_1d"]
LAYOUTS_Y = ["arrays", "lists", "series"]


def cases(tier, seed):
    n = 6 if tier == "quick" else 150
    out = []
    for name in zoo.ALL:
        lays = LAYOUTS_Y if zoo.kind(name) == "y" else LAYOUTS_X
        cost = {"PCACD": 5, "KdqTreeStreaming": 4, "LinearFourRates": 3, "KdqTreeBatch": 3}.get(name, 1)
        for lay in lays:
            if lay == "readonly_buffer" and zoo.kind(name) == "batch":
                continue
            if lay == "zero_d_buffer" and zoo.kind(name) != "x1":
                continue  # a 0-d array is one number: univariate streaming detectors only
            if lay in ("one_d_view", "series_1d") and zoo.kind(name) == "xd":
                continue  # a 1-d array is one feature (batch) or one observation of one feature (univariate streams)
            for i in range(n):
                out.append({"id": "det/%s/%s/%d" % (name, lay, i), "kind": "det", "det": name, "layout": lay, "seed": [seed, 15, i], "cost": cost})
    for inj in c20.INJECTORS:
        for lay in ("fortran", "view", "mixed_frame", "indexed_frame", "int_labels_frame"):
            for i in range(n):
                out.append({"id": "inj/%s/%s/%d" % (inj, lay, i), "kind": "inj", "inj": inj, "layout": lay, "seed": [seed, 150, i], "cost": 0.3})
    return out


def targets(tier):
    k = 1 if tier == "quick" else 10
    return {"calls_with_argument_snapshots": 20000 * k, "overwrites_after_call": 20000 * k, "alias_twin_runs": 250 * k,
            "later_outputs_compared": 20000 * k, "injector_calls_checked": 300 * k, "role:reference": 40 * k, "role:test_batch": 400 * k,
            "role:observation": 10000 * k, "role:reused_buffer": 3000 * k}


def make_obj(val, layout, names=None, mixed_ok=True):
    a = np.array(val, dtype=float)
    if layout in ("c_order", "buffer"):
        return np.ascontiguousarray(a.copy())
    if layout == "fortran":
        return np.asfortranarray(a.copy())
    if layout in ("readonly_view", "readonly_buffer"):
        # what DataFrame.to_numpy() / a defensive API hands out: a read-only view of memory its owner can still write to
        v = np.ascontiguousarray(a.copy()).view()
        v.flags.writeable = False
        return v
    if layout == "zero_d_buffer":
        return np.array(float(a.ravel()[0]))  # 0-d array (an nditer item, series[i, ...]); refilled in place by the caller
    if layout == "series_1d":
        return pd.Series(a[:, 0].copy())  # one feature as a pandas Series (a column of the caller's frame)
    if layout == "one_d_view":
        # one feature handed over as a 1-d slice of a larger array the caller keeps writing to (series[a:b], matrix[:, j])
        big = np.zeros((a.shape[0] + 2, 3))
        big[1:-1, 1] = a[:, 0]
        return big[1:-1, 1]
    if layout == "view":
        big = np.zeros((a.shape[0] * 2, a.shape[1] * 3))
        big[::2, ::3] = a
        return big[::2, ::3]
    names = names or ["c%d" % i for i in range(a.shape[1])]
    if layout in ("frame", "frame_buffer"):
        return pd.DataFrame(a.copy(), columns=names)
    if layout == "mixed_frame":
        df = pd.DataFrame(a.copy(), columns=names)
        if a.shape[1] >= 2:
            df[names[-1]] = df[names[-1]].astype("float32")
        return df
    raise ValueError(layout)


def snapshot(o):
    if isinstance(o, pd.DataFrame):
        return (o.to_numpy(copy=True), list(o.columns), [str(t) for t in o.dtypes], list(o.index))
    if isinstance(o, pd.Series):
        return (o.to_numpy(copy=True),)
    if isinstance(o, np.ndarray):
        return (o.copy(), o.dtype, o.shape)
    return (copy.deepcopy(o),)


def same(s1, s2):
    if len(s1) != len(s2):
        return False
    for a, b in zip(s1, s2):
        if isinstance(a, np.ndarray):
            if a.shape != b.shape or not np.array_equal(a, b):
                return False
        elif a != b:
            return False
    return True


def clobber(o):
    if isinstance(o, pd.DataFrame):
        o.iloc[:, :] = 1.0e6
    elif isinstance(o, pd.Series):
        o.iloc[:] = 7
    elif isinstance(o, np.ndarray):
        if not o.flags.writeable:
            o = o.base  # the owner of the memory writes
        o[...] = 1.0e6 if o.dtype.kind == "f" else 7
    elif isinstance(o, list):
        for i in range(len(o)):
            o[i] = 7


def run(name, params, calls, layout, alias, key, ctx, count):
    det = zoo.make(name, params)
    k = zoo.kind(name)
    trace = []
    buf = None
    for j, (meth, val) in enumerate(calls):
        np.random.seed(rngtap.seed_for(key, j))
        if k == "y":
            yt, yp = val
            mk = {"arrays": lambda v: np.array([v]), "lists": lambda v: [v], "series": lambda v: pd.Series([v])}[layout]
            args = [mk(yt), mk(yp)]
        else:
            if layout in ("buffer", "frame_buffer", "readonly_buffer", "zero_d_buffer") and alias:
                # realistic streaming pattern: one buffer object, refilled in place for every observation
                if buf is None:
                    buf = make_obj(val, layout)
                elif isinstance(buf, pd.DataFrame):
                    buf.iloc[:, :] = np.asarray(val, dtype=float)
                elif layout == "readonly_buffer":
                    buf.base[...] = np.asarray(val, dtype=float)
                elif layout == "zero_d_buffer":
                    buf[...] = float(np.asarray(val, dtype=float).ravel()[0])
                else:
                    buf[...] = np.asarray(val, dtype=float)
                args = [buf]
                if count:
                    ctx.count("role:reused_buffer")
            else:
                args = [make_obj(val, layout)]
        before = [snapshot(a) for a in args]
        try:
            if k == "y":
                det.update(args[0], args[1])
            else:
                getattr(det, meth)(args[0])
        except ValueError as e:
            if name == "CUSUM" and "Standard deviation is 0" in str(e):
                trace.append({"state": "documented ValueError (zero variance)"})
                break
            if j == 0 and layout in ("zero_d_buffer", "one_d_view", "readonly_view", "readonly_buffer", "series_1d"):
                return "refused"  # whether such a container is acceptable input at all is C14's question, not an aliasing matter
            raise
        if count:
            ctx.count("calls_with_argument_snapshots")
        for a, b in zip(args, before):
            if not same(snapshot(a), b):
                ctx.violation("C15/%s/argument_modified/%s" % (name, layout), "%s.%s modified the %s object passed to it (call %d)" % (name, meth, layout, j),
                              detector=name, params=params, layout=layout, step=j)
                return None
        if alias and layout not in ("buffer", "frame_buffer", "readonly_buffer", "zero_d_buffer"):
            for a in args:
                clobber(a)
            if count:
                ctx.count("overwrites_after_call")
                ctx.count("role:reference" if meth == "set_reference" or (name == "KdqTreeBatch" and j == 0) else ("role:test_batch" if k == "batch" else "role:observation"))
        elif alias and count:
            ctx.count("overwrites_after_call")
            ctx.count("role:observation")
        trace.append(zoo.observe(det, name))
    return trace


def run_case(case, ctx):
    warnings.simplefilter("ignore")
    if case["kind"] == "inj":
        return run_injector(case, ctx)
    name, layout = case["det"], case["layout"]
    rng = gen.rng_for(case["seed"], name, layout)
    key = case.get("seed_key", case["id"])
    from .c14 import det_params, valid_history

    params = det_params(name, rng)
    calls, d = valid_history(name, rng, params, allow_1d=True, p1d=1.0 if layout in ("one_d_view", "series_1d") else 0.45)
    if zoo.kind(name) == "batch" and layout in ("buffer", "frame_buffer"):
        # one preallocated batch buffer (array or frame) refilled in place for every call: all batches of one size
        mn_ = min(len(v) for _, v in calls)
        calls = [(m_, np.asarray(v)[:mn_]) for m_, v in calls]
        ctx.count("batch_histories_through_one_reused_buffer")
    if d == 1 and zoo.kind(name) == "batch":
        ctx.count("one_column_batch_histories")
    a = run(name, params, calls, layout, True, key, ctx, True)
    if a is None:
        return
    if a == "refused":
        ctx.count("layouts_refused_at_the_first_call:" + layout)
        return
    b = run(name, params, calls, layout, False, key, ctx, False)
    if b is None:
        return
    ctx.count("alias_twin_runs")
    for j, (x, y) in enumerate(zip(a, b)):
        ctx.count("later_outputs_compared")
        kf = zoo.obs_equal(x, y) if set(x) == set(y) else "state"
        if kf is not None:
            ctx.violation("C15/%s/live_reference/%s" % (name, layout),
                          "%s: with %s inputs overwritten by the caller after each call, output %r at call %d is %r; with private copies it is %r - the detector "
                          "kept a live reference to caller data" % (name, layout, kf, j, x.get(kf), y.get(kf)), detector=name, params=params, layout=layout, step=j)
            return
    drift = any(o["state"] == "drift" for o in b)
    ctx.nontrivial = drift and len(b) >= 6
    ctx.sample = {"kind": "alias twin", "detector": name, "layout": layout, "params": params, "calls": len(calls)}
    ctx.digest = "%s-%s-%s-%s" % (name, layout, sorted((p, str(v)) for p, v in params.items()), case["seed"])


def run_injector(case, ctx):
    name, layout = case["inj"], case["layout"]
    rng = gen.rng_for(case["seed"], name, layout)
    n = int(rng.integers(6, 40))
    cont = "ndarray" if layout in ("fortran", "view") else "DataFrame"
    data, cls, tcol, fcols = c20.make_data(rng, n, cont, labels="str" if layout == "mixed_frame" else ("num" if layout in ("int_labels_frame",) else "auto"))
    if layout == "fortran":
        data = np.asfortranarray(data)
    elif layout == "view":
        big = np.zeros((n * 2, data.shape[1] * 2))
        big[::2, ::2] = data
        data = big[::2, ::2]
    elif layout == "indexed_frame":
        data.index = ["r%d" % i for i in range(n)]
    # one injector object serves all calls, on this data set and on one of the other container type in turn
    inj = c20.mon(name)
    other_cont = "DataFrame" if cont == "ndarray" else "ndarray"
    odata, ocls, otcol, ofcols = c20.make_data(rng, int(rng.integers(6, 30)), other_cont)
    for r in range(6):
        use_other = r % 2 == 1
        D, C, T, F, CT = (odata, ocls, otcol, ofcols, other_cont) if use_other else (data, cls, tcol, fcols, cont)
        m = len(D)
        lo = int(rng.integers(0, m + 1))
        hi = int(rng.integers(lo, m + 1))
        if name == "FeatureCoverInjector":
            lo, hi = 0, m
        before = snapshot(D)
        ok = c20.check_one(name, CT, D, C, T, F, lo, hi, rng, ctx, case, inj=inj)
        ctx.count("injector_calls_checked")
        if not same(snapshot(D), before):
            ctx.violation("C15/injector/%s/input_modified/%s" % (name, layout), "%s modified its %s input" % (name, layout), injector=name, layout=layout)
            return
        if not ok:
            return
    ctx.nontrivial = True
    ctx.sample = {"kind": "injector", "injector": name, "layout": layout, "rows": n}
    ctx.digest = "inj-%s-%s-%s" % (name, layout, case["seed"])
