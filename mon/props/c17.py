"""C17 - a stricter confidence setting never makes a detector alarm earlier; loosening only the warning threshold
never changes when drift is reported and never removes a warning.  Twin differential over ordered parameter
values on the same history under the same numpy seed schedule (exact, not statistical)."""
import warnings

import numpy as np

from .. import gen, rngtap, zoo

ID = "C17"
LEVEL = "exploration"
ANCHOR_FILES = ["menelaus/change_detection/adwin.py", "menelaus/change_detection/cusum.py", "menelaus/change_detection/page_hinkley.py",
                "menelaus/concept_drift/ddm.py", "menelaus/concept_drift/eddm.py", "menelaus/concept_drift/stepd.py", "menelaus/concept_drift/lfr.py",
                "menelaus/data_drift/kdq_tree.py", "menelaus/data_drift/nndvi.py", "menelaus/data_drift/histogram_density_method.py"]
RULE = (
    "one case per (detector family, base parameters, generated history): the history is run once per value of the detection threshold "
    "(3-7 ordered values, strictest last; the fixed table of the family in half of the cases, values drawn from the family's range in the other half) with all other parameters and the per-call numpy seed identical; the index of the first "
    "reported drift must be non-decreasing with strictness.  For DDM / EDDM / STEPD / LinearFourRates the warning threshold alone is "
    "varied as well: the drift trace must be identical and the set of warning indices of the looser setting must contain that of the "
    "stricter.  Non-trivial = the first-drift indices of at least two settings differ; distinct = (family, parameters, input digest)."
)
ASSUMPTIONS = [
    "the boundary value 0 is included where it is a valid setting (alpha / significance / scale of 0); Page-Hinkley is driven with positive-valued streams (its threshold is relative to the running mean, so a "
    "negative mean reverses the meaning of 'larger threshold' - outside the documented use)",
    "both runs see identical random draws (seed schedule)",
]

# family -> (detector, parameter, ordered values from loose to strict)
FAMILIES = {
    "ADWIN.delta": ("ADWIN", "delta", [1.0, 0.6, 0.3, 0.1, 0.05, 0.01, 0.002, 1e-4, 1e-6]),
    "ADWINAccuracy.delta": ("ADWINAccuracy", "delta", [1.0, 0.6, 0.3, 0.1, 0.05, 0.01, 0.002]),
    "CUSUM.threshold": ("CUSUM", "threshold", [1.0, 2.0, 5.0, 12.0]),
    "PageHinkley.threshold": ("PageHinkley", "threshold", [0.05, 0.2, 1.0, 4.0]),
    "DDM.drift_scale": ("DDM", "drift_scale", [0.0, 2.0, 2.5, 3.0, 4.0]),
    "EDDM.drift_thresh": ("EDDM", "drift_thresh", [0.9, 0.8, 0.6, 0.4, 0.0]),
    "STEPD.alpha_drift": ("STEPD", "alpha_drift", [0.05, 0.01, 0.003, 0.0001, 0.0]),
    "LinearFourRates.detect_level": ("LinearFourRates", "detect_level", [0.2, 0.05, 0.02, 0.005]),
    "KdqTreeStreaming.alpha": ("KdqTreeStreaming", "alpha", [1.0, 0.5, 0.2, 0.05, 0.01, 0.0]),
    "KdqTreeBatch.alpha": ("KdqTreeBatch", "alpha", [1.0, 0.5, 0.2, 0.05, 0.01, 0.0]),
    "NNDVI.alpha": ("NNDVI", "alpha", [1.0, 0.4, 0.2, 0.05, 0.01, 0.0]),
    "HDDDM.tstat": ("HDDDM", "significance", [0.3, 0.1, 0.05, 0.01, 0.0]),
    "HDDDM.stdev": ("HDDDM", "significance", [0.0, 0.2, 0.5, 1.0, 2.0]),
    "CDBD.tstat": ("CDBD", "significance", [0.3, 0.1, 0.05, 0.01, 0.0]),
    "CDBD.stdev": ("CDBD", "significance", [0.0, 0.2, 0.5, 1.0, 2.0]),
}
# family -> (low, high, log-uniform?, strict = "high" / "low", boundary value appended at the strict end or None): half of the cases
# draw their own ordered values from these ranges instead of the fixed tables above
RANGES = {
    "ADWIN.delta": (1e-6, 1.0, True, "low", None),
    "ADWINAccuracy.delta": (1e-4, 1.0, True, "low", None),
    "CUSUM.threshold": (0.5, 25.0, True, "high", None),
    "PageHinkley.threshold": (0.02, 20.0, True, "high", None),
    "DDM.drift_scale": (0.0, 5.0, False, "high", None),
    "EDDM.drift_thresh": (0.05, 0.97, False, "low", 0.0),
    "STEPD.alpha_drift": (1e-5, 0.05, True, "low", 0.0),
    "LinearFourRates.detect_level": (0.002, 0.97, False, "low", None),  # uniform: levels above 0.5 are unusual but accepted
    "KdqTreeStreaming.alpha": (0.005, 0.5, True, "low", 0.0),
    "KdqTreeBatch.alpha": (0.005, 0.5, True, "low", 0.0),
    "NNDVI.alpha": (0.002, 0.45, True, "low", 0.0),
    "HDDDM.tstat": (0.003, 0.4, True, "low", 0.0),
    "HDDDM.stdev": (0.0, 2.5, False, "high", None),
    "CDBD.tstat": (0.003, 0.4, True, "low", 0.0),
    "CDBD.stdev": (0.0, 2.5, False, "high", None),
}


LOOSEST = {"NNDVI.alpha": [1.0, 0.9], "KdqTreeBatch.alpha": [1.0, 0.99, 0.9], "KdqTreeStreaming.alpha": [1.0, 0.99, 0.9],
           "HDDDM.tstat": [1.0], "CDBD.tstat": [1.0]}


def draw_values(fam, rng, k):
    lo, hi, logu, strict, bound = RANGES[fam]
    if rng.random() < 0.4:
        # settings close to each other (within a factor of about 2.5 / a tenth of the range): small inversions show
        if logu:
            c_ = np.exp(rng.uniform(np.log(lo) + 0.5, np.log(hi) - 0.5)) if np.log(hi) - np.log(lo) > 1.2 else np.sqrt(lo * hi)
            v = np.clip(c_ * np.exp(rng.uniform(-0.45, 0.45, size=k)), lo, hi)
        else:
            c_ = rng.uniform(lo, hi)
            v = np.clip(c_ + rng.uniform(-0.05, 0.05, size=k) * (hi - lo), lo, hi)
    elif logu:
        v = np.exp(rng.uniform(np.log(lo), np.log(hi), size=k))
    else:
        v = rng.uniform(lo, hi, size=k)
    v = sorted({float(np.round(x, 6)) for x in v}, reverse=(strict == "low"))
    if bound is not None and rng.random() < 0.5:
        v.append(bound)
    if fam in LOOSEST and rng.random() < 0.35:
        v = [x for x in LOOSEST[fam] if x not in v] + v  # the loosest valid settings (a level of 1: every batch is "significant")
    return v


# warning thresholds, from strict to loose
WARN = {
    "DDM.warning_scale": ("DDM", "warning_scale", [2.0, 1.5, 1.0, 0.5]),
    "EDDM.warning_thresh": ("EDDM", "warning_thresh", [0.9, 0.95, 0.98, 1.0]),
    "STEPD.alpha_warning": ("STEPD", "alpha_warning", [0.05, 0.1, 0.3, 0.5]),
    "LinearFourRates.warning_level": ("LinearFourRates", "warning_level", [0.05, 0.1, 0.2, 0.4]),
}


def cases(tier, seed):
    n = 14 if tier == "quick" else 160
    out = []
    for fam in FAMILIES:
        cost = 4 if fam.startswith(("Kdq", "Linear", "NNDVI")) else 1
        for i in range(n * 4 if fam.startswith(("HDDDM", "CDBD")) else (n * 4 if fam.startswith("NNDVI") else (n * 6 if fam.startswith("ADWIN") else (n * 2 if fam.startswith(("Linear", "KdqTreeBatch", "DDM", "PageHinkley", "CUSUM")) else n)))):
            out.append({"id": "drift/%s/%d" % (fam, i), "kind": "drift", "fam": fam, "seed": [seed, 17, i], "cost": cost})
    for fam in WARN:
        for i in range(n):
            out.append({"id": "warn/%s/%d" % (fam, i), "kind": "warn", "fam": fam, "seed": [seed, 170, i], "cost": 3 if fam.startswith("Linear") else 1})
    return out


def targets(tier):
    k = 1 if tier == "quick" else 10
    t = {"ordered_pairs_compared": 600 * k, "pairs_with_different_first_drift": 200 * k, "warning_pairs_compared": 120 * k,
         "warning_pairs_with_more_warnings": 40 * k}
    for fam in FAMILIES:
        t["differing:" + fam] = 2 * k
    return t


def base_params(det, rng, fam):
    p = zoo.draw_params(det, rng)
    if det in ("HDDDM", "CDBD"):
        p["statistic"] = "tstat" if fam.endswith("tstat") else "stdev"
    if det == "DDM":
        p["warning_scale"] = 0.5
    if det == "EDDM":
        p["warning_thresh"] = 1.0
    if det == "STEPD":
        p["alpha_warning"] = 0.5
    if det == "LinearFourRates":
        p["warning_level"] = 0.45
    if det == "CUSUM":
        p["target"], p["sd_hat"] = (None, None) if rng.random() < 0.5 else (0.0, 1.0)
    if det == "NNDVI":
        # many and few re-assignments: the critical value of a setting may be governed by the bulk or by the tail of the sampled distances
        p["sampling_times"] = int(rng.choice([1, 2, 10, 10, 40, 40, 150, 400]))
    return p


def run_trace(det, params, items, key):
    d = zoo.make(det, params)
    states = []
    for i, it in enumerate(items):
        np.random.seed(rngtap.seed_for(key, i))
        try:
            zoo.feed(d, det, it, first=(i == 0))
        except ValueError as e:
            if det == "CUSUM" and "Standard deviation is 0" in str(e):
                break
            raise
        states.append(d.drift_state)
    return states


def first_drift(states):
    return states.index("drift") if "drift" in states else len(states) + 10 ** 6


def run_case(case, ctx):
    warnings.simplefilter("ignore")
    fam = case["fam"]
    table = FAMILIES if case["kind"] == "drift" else WARN
    det, pname, values = table[fam]
    rng = gen.rng_for(case["seed"], fam)
    if case["kind"] == "drift" and case["seed"][-1] % 2 == 1:
        values = draw_values(fam, gen.rng_for(case["seed"], fam, "values"), 4 if det == "LinearFourRates" else 6)
        ctx.count("cases_with_drawn_threshold_values")
    p0 = base_params(det, rng, fam)
    items = zoo.workload(det, rng, p0, length=int(rng.integers(20, 45)) if det in ("HDDDM", "CDBD") else None)
    if det in ("NNDVI", "KdqTreeBatch", "HDDDM", "CDBD") and rng.random() < 0.4:
        # a slow drift: the statistic creeps up to the critical value over many batches, so the first alarm of each setting is decided
        # by small differences between their critical values
        d_ = items[0].shape[1]
        nb = int(rng.integers(15, 40))
        m_ = int(rng.integers(25, 70))
        step = float(rng.choice([0.01, 0.02, 0.05])) * np.r_[1.0, rng.uniform(0, 1, size=d_ - 1)]
        items = [rng.normal(size=(m_, d_))] + [rng.normal(size=(m_, d_)) + step * k_ for k_ in range(nb)]
        ctx.count("slow_drift_histories")
        if det == "NNDVI" and case["kind"] == "drift" and rng.random() < 0.6:
            # settings on both sides of the resolution 1 / sampling_times of the sampled distances
            c_ = 1.0 / p0["sampling_times"]
            values = sorted({float(np.round(min(0.45, c_ * np.exp(u)), 6)) for u in rng.uniform(-1.6, 1.6, size=6)}, reverse=True)
    if det in ("PageHinkley", "CUSUM", "ADWIN") and rng.random() < 0.3:
        # a quiet stream with one early change (inside or just after the warm-up period) and nothing else: whatever a setting
        # does with evidence it cannot report yet decides when - and whether - the change is reported
        burn = int(p0.get("burn_in", 10))
        n_ = int(rng.integers(3 * burn + 20, 5 * burn + 120))
        at = int(rng.integers(1, burn + 5))
        a_, b_ = float(rng.choice([1.0, 2.0, 5.0])), float(rng.choice([0.5, 1.0, 2.0]))
        up = 1.0 if (p0.get("direction") != "negative") else -1.0
        noise = float(rng.choice([0.01, 0.05, 0.2]))
        items = [float(a_ + 4.0 + (up * b_ if i >= at else 0.0) + rng.uniform(-noise, noise)) for i in range(n_)]
        ctx.count("quiet_streams_with_one_early_change")
    if det == "PageHinkley":
        lo = min(items)
        items = [v - lo + 1.0 for v in items]
    key = case.get("seed_key", case["id"])
    traces = []
    if case["kind"] == "drift" and case["seed"][-1] % 3 == 0:
        # other detectors of the class have been at work in the process before, at the same levels but configured differently in
        # everything else (whatever a class remembers across objects must not leak into these runs)
        other = base_params(det, gen.rng_for(case["seed"], fam, "bystander"), fam)
        for k_, v_ in list(other.items()):
            if isinstance(v_, bool):
                other[k_] = not p0.get(k_, v_)
        for v in values[:: 2]:  # at some of the levels only: a leak then treats the levels unequally
            try:
                run_trace(det, dict(other, **{pname: v}), items, key)
            except Exception:
                break  # the other configuration is only a bystander
        ctx.count("cases_after_differently_configured_bystanders")
    for v in values:
        p = dict(p0)
        p[pname] = v
        if case["kind"] == "warn":
            # keep the drift threshold fixed and no looser than the strictest warning threshold requires
            pass
        traces.append(run_trace(det, p, items, key))
    base = dict(family=fam, params=p0, values=values)
    if case["kind"] == "drift":
        fd = [first_drift(t) for t in traces]
        differing = 0
        for a in range(len(values)):
            for b in range(a + 1, len(values)):
                ctx.count("ordered_pairs_compared")
                if fd[b] < fd[a]:
                    ctx.violation("C17/%s/earlier_alarm" % fam, "%s=%r (stricter) first reports drift at index %d, %s=%r (looser) only at %s" % (
                        pname, values[b], fd[b], pname, values[a], fd[a] if fd[a] < 10 ** 6 else "never"), first_drift=fd, **base)
                    return
                if fd[a] != fd[b]:
                    differing += 1
                    ctx.count("pairs_with_different_first_drift")
        if differing:
            ctx.count("differing:" + fam)
        ctx.nontrivial = differing > 0
        ctx.sample = {"family": fam, "values_loose_to_strict": values, "first_drift_index": [f if f < 10 ** 6 else None for f in fd], "inputs": len(items)}
    else:
        more = 0
        for a in range(len(values)):
            for b in range(a + 1, len(values)):  # b looser than a
                ctx.count("warning_pairs_compared")
                ta, tb = traces[a], traces[b]
                da = [i for i, s in enumerate(ta) if s == "drift"]
                db = [i for i, s in enumerate(tb) if s == "drift"]
                if da != db:
                    ctx.violation("C17/%s/drift_changed_by_warning_threshold" % fam, "%s %r -> %r changes the drift indices (%r... vs %r...)" % (
                        pname, values[a], values[b], da[:5], db[:5]), **base)
                    return
                wa = {i for i, s in enumerate(ta) if s == "warning"}
                wb = {i for i, s in enumerate(tb) if s == "warning"}
                if not wa <= wb:
                    ctx.violation("C17/%s/warning_removed" % fam, "loosening %s %r -> %r removes the warnings at indices %r" % (
                        pname, values[a], values[b], sorted(wa - wb)[:8]), **base)
                    return
                if len(wb) > len(wa):
                    more += 1
                    ctx.count("warning_pairs_with_more_warnings")
        ctx.nontrivial = more > 0
        ctx.sample = {"family": fam, "values_strict_to_loose": values, "warnings": [t.count("warning") for t in traces], "drifts": [t.count("drift") for t in traces]}
    ctx.digest = "%s-%s-%s" % (fam, sorted((a, str(b)) for a, b in p0.items()), case["seed"])
