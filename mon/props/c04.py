"""C04 - CUSUM and Page-Hinkley against epoch-local executable specifications, after every update."""
import warnings

import numpy as np

from menelaus.change_detection import CUSUM, PageHinkley

from .. import gen
from ..models.base import Shadow, close
from ..models.change import CUSUMModel, PHModel

ID = "C04"
LEVEL = "exploration"
ANCHOR_FILES = ["menelaus/change_detection/cusum.py", "menelaus/change_detection/page_hinkley.py"]
RULE = (
    "one case per generated real-valued stream (level / variance shifts every few samples, constant and integer runs, "
    "offsets up to 1e6) and parameter draw (burn_in 1-30, delta 0-1, thresholds 0.5-20, every direction, known or "
    "estimated target); the real detector and the specification are stepped together and drift_state (PageHinkley: "
    "also the newest to_dataframe row and the row count) compared after every update.  Non-trivial = at least two "
    "alarms, i.e. the comparison continued into a later epoch; distinct = distinct (detector, parameters, stream digest)."
)
ASSUMPTIONS = [
    "CUSUM with an estimated target starts accumulating at the burn_in-th observation of the first epoch, with a given or "
    "re-estimated target at the first (repository-pinned, DESIGN.md 3.3); population standard deviations",
    "a zero standard deviation in the estimation window ends the case with the documented ValueError",
    "PageHinkley direction None is undocumented and not driven; thresholds are positive",
    "decisions within 1e-9 (relative to the magnitude of the accumulated terms) of the threshold are adopted from the "
    "implementation (counted)",
]

PH_COLS = ["change_scores", "page_hinkley_values", "page_hinkley_differences", "theta_threshold", "drift_detected",
           "maximum_sum_values", "minimum_sum_values", "mean_values"]


def cases(tier, seed):
    n = 220 if tier == "quick" else 8000
    out = []
    for det in ("CUSUM", "PH"):
        for i in range(n):
            out.append({"id": "%s/%d" % (det, i), "det": det, "seed": [seed, 4, i], "cost": 1})
    return out


def targets(tier):
    k = 1 if tier == "quick" else 8
    t = {"steps": 50000 * k, "histories_5plus_alarms:PH:positive": 20 * k, "histories_5plus_alarms:PH:negative": 20 * k,
         "ph_rows_compared": 20000 * k, "cusum_reestimations": 300 * k}
    for d in ("None", "positive", "negative"):
        t["histories_5plus_alarms:CUSUM:%s" % d] = 10 * k
    for tg in ("known", "estimated"):
        t["alarms:CUSUM:%s" % tg] = 200 * k
    return t


def fval(v):
    a = np.asarray(v, dtype=float).ravel()
    return float(a[0])


def run_case(case, ctx):
    warnings.simplefilter("ignore")
    det = case["det"]
    if "literal" in case:  # recorded witness (regression case): parameters and stream written out
        lit = case["literal"]
        kw, xs = dict(lit["params"]), list(lit["stream"])
        if det == "CUSUM":
            known = kw.get("target") is not None
            d = CUSUM(**kw)
            sh = Shadow(lambda: CUSUMModel(**kw), lambda m: ("raise" if m.raises else m.state))
        else:
            d = PageHinkley(**kw)
            sh = Shadow(lambda: PHModel(**kw), lambda m: m.state)
        tag = "%s:%s" % (det, kw.get("direction"))
        return drive(det, d, sh, kw, xs, known if det == "CUSUM" else None, tag, ctx, lit.get("dtype"))
    rng = gen.rng_for(case["seed"], det)
    n = int(rng.integers(150, 900))
    if det == "CUSUM":
        burn = int(rng.choice([1, 2, 3, 5, 10, 30]))
        delta = float(rng.choice([0.0, 0.005, 0.1, 0.5, 1.0]))
        thr = float(rng.choice([0.5, 1, 2, 4, 8, 20]))
        direction = [None, "positive", "negative"][int(rng.integers(0, 3))]
        known = bool(rng.random() < 0.5)
        offset = float(rng.choice([0.0, 0.0, 10.0, 1e6, 1e6, 1e8]))
        if offset >= 1e8:
            ctx.count("cusum_streams_level_1e8")  # timestamps, byte counters: the level is 1e7 .. 1e9 times the spread
        xs = gen.level_shift_stream(rng, n, seg=(2, 90), offset=offset, heavy=True)
        xs, typed, unit = vary_units(rng, xs, ctx)
        if known:
            tgt, sd = float(np.mean(xs[:20])), float(np.std(xs[:20]) + 0.1 * unit)
        else:
            tgt, sd = None, None
        kw = dict(target=tgt, sd_hat=sd, burn_in=burn, delta=delta, threshold=thr, direction=direction)
        d = gen.construct(CUSUM, kw, case, ctx)
        sh = Shadow(lambda: CUSUMModel(**kw), lambda m: ("raise" if m.raises else m.state))
        tag = "CUSUM:%s" % direction
    else:
        burn = int(rng.choice([0, 1, 2, 3, 5, 10, 30]))
        delta = float(rng.choice([0.0, 0.01, 0.1, 0.5]))
        thr = float(rng.choice([0.05, 0.2, 0.5, 1, 2, 5, 20]))
        direction = ["positive", "negative"][int(rng.integers(0, 2))]
        offset = float(rng.choice([0.0, 3.0, 10.0, 10.0, 100.0, 1e6]))
        xs = gen.level_shift_stream(rng, n, seg=(2, 90), offset=offset, heavy=True)
        xs, typed, unit = vary_units(rng, xs, ctx)
        delta *= unit
        kw = dict(delta=delta, threshold=thr, burn_in=burn, direction=direction)
        d = gen.construct(PageHinkley, kw, case, ctx)
        sh = Shadow(lambda: PHModel(**kw), lambda m: m.state)
        tag = "PH:%s" % direction
    return drive(det, d, sh, kw, xs, known if det == "CUSUM" else None, tag, ctx, typed)


UNITS = (2.0 ** -30, 2.0 ** -40, 2.0 ** 40)
# float32 is left out: both detectors then compute in single precision, which no property clause forbids and the
# double-precision specification cannot follow to 1e-9
DTYPES = ("uint8", "uint16", "int16", "int64", "bool")


def vary_units(rng, xs, ctx):
    """the same kind of stream in another unit of measurement (powers of two, so the scaled history is the original one
    bit for bit up to the exponent) or delivered with a narrow numpy dtype (counts, 0/1 outcomes)"""
    r = rng.random()
    if r < 0.15:
        u = float(rng.choice(UNITS))
        ctx.count("streams_in_other_units")
        ctx.count("unit:%g" % u)
        return [v * u for v in xs], None, u
    if r < 0.35:
        typed = str(rng.choice(DTYPES))
        lo_, hi_ = min(xs), max(xs)
        if typed == "bool":
            med = float(np.median(xs))
            xs = [float(v > med) for v in xs]
        else:
            top = {"uint8": 255, "uint16": 60000, "int16": 30000, "int64": 10 ** 6}[typed]
            xs = [float(int(round((v - lo_) / (hi_ - lo_ + 1e-12) * top))) for v in xs]
            if typed in ("int16", "int64"):
                xs = [v - top // 2 for v in xs]
        ctx.count("typed_input_streams:" + typed)
        return xs, typed, 1.0
    return xs, None, 1.0


def present(x, typed, i):
    if not typed:
        return x
    tx = np.dtype(typed).type(x)
    return tx if i % 2 else np.array([[tx]])


def drive(det, d, sh, kw, xs, known, tag, ctx, typed=None):
    alarms = 0
    # how the caller reads the Page-Hinkley table: after every update, only when an alarm was raised (and one call later), or now and then
    poll = ("every", "at_alarm", "sparse")[len(xs) % 3] if det == "PH" else "every"
    ctx.count("ph_poll_mode:" + poll) if det == "PH" else None
    after_alarm = False
    for i, x in enumerate(xs):
        try:
            d.update(present(x, typed, i))
            got = d.drift_state
        except ValueError as e:
            if det == "CUSUM" and "Standard deviation is 0" in str(e):
                got = "raise"
            else:
                raise
        ok, adopted = sh.step((x,), got)
        m = sh.model
        if getattr(m, "degenerate", False):
            ctx.count("degenerate_estimation_windows_not_judged")
            break
        ctx.count("steps")
        if adopted:
            ctx.count("near_ties_adopted")
        if not ok:
            exp = "raise" if getattr(m, "raises", False) else m.state
            ctx.violation("C04/%s/state" % det,
                          "%s(%s) update %d (epoch position %d): implementation %r, specification %r" % (
                              det, kw, i, len(m.epoch), got, exp),
                          detector=det, params=kw, stream=xs[: i + 1], step=i, got=got, expected=exp, dtype=typed,
                          margins=[mg for (_, _, mg) in m.cmp.log])
            break
        if got == "raise":
            ctx.count("zero_sd_raises")
            break
        if det == "PH" and (poll == "every" or (poll == "at_alarm" and (got == "drift" or after_alarm)) or (poll == "sparse" and i % 7 == 3)):
            df = d.to_dataframe()
            if len(df) != m.rows:
                ctx.violation("C04/PH/dataframe_rows", "update %d: to_dataframe has %d rows, the current epoch has %d observations" % (i, len(df), m.rows),
                              params=kw, stream=xs[: i + 1], step=i)
                break
            row = df.iloc[-1]
            bad = []
            near = bool(m.cmp.near_indices())
            for c in PH_COLS:
                if c == "drift_detected":
                    if not near and bool(np.asarray(row[c]).ravel()[0]) != bool(m.row[c]):
                        bad.append(c)
                elif not close(fval(row[c]), m.row[c], rtol=1e-9, atol=1e-9 * m.mag):
                    bad.append(c)
            ctx.count("ph_rows_compared")
            if bad:
                ctx.violation("C04/PH/dataframe_values",
                              "update %d: to_dataframe columns %s differ: implementation %s, specification %s" % (
                                  i, bad, {c: fval(row[c]) for c in bad}, {c: m.row[c] for c in bad}),
                              params=kw, stream=xs[: i + 1], step=i, columns=bad)
                break
        after_alarm = got == "drift"
        if got == "drift":
            alarms += 1
            if det == "CUSUM":
                ctx.count("alarms:CUSUM:%s" % ("known" if known else "estimated"))
                if alarms >= 1:
                    ctx.count("cusum_reestimations")
            else:
                ctx.count("alarms:" + tag)
    if alarms >= 5:
        ctx.count("histories_5plus_alarms:" + tag)
    ctx.cmax("alarms_in_one_history", alarms)
    ctx.nontrivial = alarms >= 2
    ctx.digest = "%s-%s-%s" % (det, sorted(kw.items(), key=str), hash(tuple(xs)))
    ctx.sample = {"detector": det, "params": kw, "length": len(xs), "alarms": alarms, "first_values": [round(v, 4) for v in xs[:8]]}
