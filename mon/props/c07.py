"""C07 - HDDDM / CDBD: distances on aligned histograms, epsilon / adaptive threshold / decision per batch,
reference maintenance, feature_info; bootstrap estimate validated from the RNG log; distance axioms."""
import math
import warnings

import numpy as np
import pandas as pd
import scipy.stats

from menelaus.data_drift import CDBD, HDDDM

from .. import gen, rngtap
from ..models import hdm as H
from ..models.base import close

ID = "C07"
LEVEL = "exploration"
ANCHOR_FILES = ["menelaus/data_drift/histogram_density_method.py", "menelaus/data_drift/hdddm.py", "menelaus/data_drift/cdbd.py"]
RULE = (
    "sequence cases: one per generated reference + 5-40 test batches (1-4 features, sizes 8-200 changing from batch to batch, level / "
    "variance shifts, duplicates, integer data, explicit set_reference mid-run) x detector (HDDDM / CDBD) x divergence (Hellinger, JS, "
    "user probe) x detect_batch 1/2/3 x statistic x significance x subsets; after every call all published quantities (state, "
    "current_distance, distances, epsilon_values, thresholds, beta, epsilon, reference_n, feature_epsilons, feature_info, counters) are "
    "compared with an epoch-local executable specification; the bootstrap estimate is recomputed from the logged row draws; the user "
    "divergence probe checks that both histograms have floor(sqrt(|ref|)) bins and hold every point.  Axiom cases: identity, symmetry "
    "(roles swapped in a second detector) and bounds.  Non-trivial = a sequence with at least one drift and a later decision in a new "
    "epoch; distinct = digest of (configuration, data)."
)
ASSUMPTIONS = [
    "numpy.histogram, scipy.stats.t and scipy's jensenshannon are the trusted base (histogram arguments - bins, common range - are the "
    "model's own)",
    "the bootstrap estimate of the second batch of an epoch is read from epsilon[0] and validated separately from the RNG log",
    "epsilon vs threshold within 1e-9 relative is adopted from the implementation (counted)",
]
SQ2, SQLN2 = math.sqrt(2.0), math.sqrt(math.log(2.0))


class Probe:
    """user divergence function handed to the detector: total variation of the normalised counts; records its arguments"""

    def __init__(self):
        self.calls = []

    def __call__(self, r, t):
        r = np.asarray(r, float)
        t = np.asarray(t, float)
        self.calls.append((r.copy(), t.copy()))
        return tv(r, t)


def tv(r, t):
    r = np.asarray(r, float)
    t = np.asarray(t, float)
    return float(0.5 * np.sum(np.abs(r / r.sum() - t / t.sum())))


def cases(tier, seed):
    n = 260 if tier == "quick" else 20000
    out = [{"id": "seq/%d" % i, "kind": "seq", "seed": [seed, 7, i], "cost": 2} for i in range(n)]
    out += [{"id": "axiom/%d" % i, "kind": "axiom", "seed": [seed, 77, i], "cost": 0.3} for i in range(n // 2)]
    return out


def targets(tier):
    k = 1 if tier == "quick" else 10
    t = {"updates_checked": 3000 * k, "drifts": 600 * k, "histories_3plus_epochs": 100 * k, "bootstraps_validated": 200 * k,
         "explicit_set_reference": 60 * k, "feature_info_checked": 60 * k, "probe_calls_checked": 1000 * k,
         "axiom_identity": 100 * k, "axiom_symmetry": 100 * k}
    for db in (1, 2, 3):
        for st in ("tstat", "stdev"):
            t["drifts:db%d:%s" % (db, st)] = 25 * k
    for dv in ("H", "KL", "probe"):
        t["drifts:div:" + dv] = 50 * k
    return t


def draw_cfg(rng):
    cd = bool(rng.random() < 0.35)
    d = 1 if cd else int(rng.integers(1, 5))
    divname = str(rng.choice(["KL", "KL", "H", "probe"])) if cd else str(rng.choice(["H", "H", "KL", "probe"]))
    stat = str(rng.choice(["tstat", "stdev"]))
    sig = float(rng.choice([0.05, 0.2, 0.5, 1.0, 2.0])) if stat == "stdev" else float(rng.choice([0.01, 0.05, 0.3]))
    return dict(cls="CDBD" if cd else "HDDDM", d=d, divergence=divname, detect_batch=int(rng.choice([1, 2, 3])), statistic=stat,
                significance=sig, subsets=int(rng.integers(2, 7)))


def make(cfg, numpy_params=False):
    probe = None
    div = cfg["divergence"]
    if div == "probe":
        probe = Probe()
        div = probe
    cls = CDBD if cfg["cls"] == "CDBD" else HDDDM
    kw_ = dict(detect_batch=cfg["detect_batch"], statistic=cfg["statistic"], significance=cfg["significance"], subsets=cfg["subsets"])
    try:
        det = cls(divergence=div, **(gen.numpyfy(kw_) if numpy_params else kw_))
    except (ValueError, TypeError):
        if not numpy_params:
            raise
        det = cls(divergence=div, **kw_)  # a constructor may insist on plain Python types
    mdiv = tv if cfg["divergence"] == "probe" else cfg["divergence"]
    model = H.HDMModel(mdiv, cfg["detect_batch"], cfg["statistic"], cfg["significance"])
    return det, model, probe


def dict_close(got, exp, tol=1e-9):
    if set(got) != set(exp):
        return "keys %s vs %s" % (sorted(got), sorted(exp))
    for k in exp:
        if not close(float(got[k]), exp[k], rtol=tol, atol=1e-12):
            return "entry %r: %r vs %r" % (k, float(got[k]), exp[k])
    return None


def tune_significance(cfg, calls, below):
    """significance for which beta at the 4th batch of the first epoch (detect_batch 3: second decision) is epsilon * (1 -/+ 1e-6);
    the threshold is affine in the critical factor, which two runs of the specification determine.  None when the first epoch does
    not get that far without a drift or the required value is not a valid setting"""
    if len(calls) < 5 or any(op != "update" for op, _ in calls[1:5]):
        return None

    def probe(sig):
        m = H.HDMModel(cfg["divergence"], 3, cfg["statistic"], sig)
        m.set_reference(calls[0][1])
        for _, X in calls[1:4]:
            m.update(X)
        if m.state == "drift":
            return None
        nref = len(m.ref)
        out = m.update(calls[4][1])
        return out["eps"], out["beta"], nref + len(calls[4][1]) - 2

    s1, s2 = (0.5, 1.5) if cfg["statistic"] == "stdev" else (0.2, 0.02)
    a, b = probe(s1), probe(s2)
    if a is None or b is None or a[0] is None or a[1] is None or b[1] is None:
        return None
    eps, dof = a[0], a[2]
    f = (lambda sg: sg) if cfg["statistic"] == "stdev" else (lambda sg: float(scipy.stats.t.ppf(1 - sg / 2, dof)))
    c = (b[1] - a[1]) / (f(s2) - f(s1))
    mean = a[1] - f(s1) * c
    target = eps * ((1 - 1e-6) if below else (1 + 1e-6))
    if c <= 1e-9 * max(mean, 1e-300) or target <= mean:
        return None
    fac = (target - mean) / c
    if cfg["statistic"] == "stdev":
        sig = fac
    else:
        sig = 2 * float(scipy.stats.t.sf(fac, dof))
        if not (1e-12 < sig < 1):
            return None
    chk = probe(float(sig))
    if chk is None or chk[1] is None or abs(chk[1] - target) > 1e-8 * target:
        return None
    return float(sig)


def run_case(case, ctx):
    warnings.simplefilter("ignore")
    if case["kind"] == "axiom":
        return run_axiom(case, ctx)
    if "literal" in case:
        lit = case["literal"]
        cfg = dict(lit["cfg"])
        calls = [(c[0], np.array(c[1], dtype=float)) for c in lit["calls"]]
        as_frame = False
    else:
        rng = gen.rng_for(case["seed"])
        cfg = draw_cfg(rng)
        r_ = rng.random()
        batches = gen.batch_sequence(rng, int(rng.integers(6, 42)), cfg["d"], size=(8, 200) if r_ < 0.3 else ((3, 9) if r_ < 0.4 else (8, 60)), shift_p=0.3)
        if rng.random() < 0.15:
            # batches of one size that alternate between narrow and wide spreads: drifts follow each other closely, the adopted batch has
            # the same bin count as the reference it replaces and holds the extremes of both
            m_ = int(rng.integers(9, 130))
            batches = [rng.normal(0, float(rng.choice([1.0, 1.0, 4.0, 0.3])), size=(m_, cfg["d"])) for _ in range(len(batches))]
            ctx.count("histories_equal_sizes_alternating_spread")
        coded = False
        if rng.random() < 0.12:
            # bounded integer codes (0-9 ratings, 0/1 flags) in batches of one size, re-baselined often: feature ranges and bin counts
            # repeat exactly from one reference to the next
            m_ = int(rng.integers(16, 90))
            hi_ = [int(rng.choice([1, 4, 9])) for _ in range(cfg["d"])]
            batches = [np.column_stack([np.r_[0, h_, rng.integers(0, h_ + 1, size=m_ - 2)] for h_ in hi_]).astype(float) for _ in range(len(batches))]
            coded = True
            ctx.count("histories_of_bounded_integer_codes")
        calls = [("set_reference", batches[0])]
        for X in batches[1:]:
            if rng.random() < (0.3 if coded else 0.05):
                calls.append(("set_reference", X))
            else:
                calls.append(("update", X))
        as_frame = bool(rng.random() < 0.3)
        if cfg["detect_batch"] == 3 and cfg["divergence"] != "probe" and rng.random() < 0.9:
            # boundary seeking: the significance is tuned (from the specification's own run) so that at the second decision of the first
            # epoch the threshold lies a relative 1e-6 below / above epsilon - "exceeds" must mean exceeds, with no tolerance either way
            tuned = tune_significance(cfg, calls, below=bool(rng.random() < 0.5))
            if tuned is not None:
                cfg["significance"] = tuned
                ctx.count("histories_with_threshold_tuned_to_epsilon")
        if rng.random() < 0.15:
            # dtype varies along the history: a whole-number reference handed over with an integer dtype, later batches as floats
            calls[0] = ("set_reference", np.round(calls[0][1] * 3))
            int_first = True
    int_first = locals().get("int_first", False)
    npar = "literal" not in case and bool(case.get("seed")) and case["seed"][-1] % 3 == 1
    if npar:
        ctx.count("numpy_typed_parameters")
    det, m, probe = make(cfg, npar)
    db = cfg["detect_batch"]
    cols = ["f%d" % j for j in range(cfg["d"])]
    if "literal" in case and case["literal"].get("columns"):
        cols = list(case["literal"]["columns"])
    elif "literal" not in case and as_frame and cfg["d"] >= 2 and rng.random() < 0.5:
        # a frame in which a column label occurs twice (e.g. after a join): features are what they are by position
        cols[int(rng.integers(1, cfg["d"]))] = cols[0]
        ctx.count("frames_with_a_repeated_column_label")
    inject_bad = "literal" not in case and rng.random() < 0.25
    dist_m, eps_m, thr_m = {}, {}, {}
    drifts = 0
    epochs_decided = 0
    log = []
    decided_after_drift = False
    with rngtap.Tap() as tap:
        for i, (op, X) in enumerate(calls):
            np.random.seed(rngtap.seed_for(case.get("seed_key", case["id"]), i))
            Xa = X.astype(np.int64) if (int_first and i == 0) else X.copy()
            arg = pd.DataFrame(Xa, columns=cols) if as_frame else Xa
            if int_first and i == 0:
                ctx.count("integer_typed_reference_then_float_batches")
            if inject_bad and i > 0 and det.drift_state != "drift" and rng.random() < 0.15:
                # a malformed batch offered in the middle of an epoch (one row, or one column too many) is refused and is not a batch of
                # the epoch: everything that follows is compared with the specification, which never sees it
                bad = Xa[:1] if rng.random() < 0.5 else np.column_stack([Xa, Xa[:, :1]])
                try:
                    getattr(det, "update")(pd.DataFrame(bad) if (as_frame and bad.shape[1] != len(cols)) else (pd.DataFrame(bad, columns=cols) if as_frame else bad))
                    ctx.count("malformed_batches_accepted")
                except ValueError:
                    ctx.count("malformed_batches_refused")
            mark = tap.mark()
            ncall0 = len(probe.calls) if probe else 0
            getattr(det, op)(arg)
            ev = tap.since(mark, "choice")
            log.append([op, X.tolist() if X.size <= 240 else "omitted%s" % (X.shape,)])
            base = dict(cfg=cfg, calls=log, step=i, columns=cols if as_frame else None)
            boot = None
            was_drift = m.state == "drift"
            if op == "set_reference":
                ctx.count("explicit_set_reference" if i > 0 else "initial_set_reference")
                out = m.set_reference(X)
                outs = [out] if out is not None else []
            else:
                if m.next_needs_boot():
                    # the bootstrap estimate is an input of the specification: read where the implementation publishes it
                    eps_list = list(det.epsilon)
                    if len(eps_list) != 2:
                        ctx.violation("C07/epsilon_list", "call %d: second batch of an epoch (detect_batch %d) must publish [bootstrap estimate, epsilon], "
                                      "epsilon has %d entries" % (i, db, len(eps_list)), **base)
                        return
                    boot = float(eps_list[0])
                out = m.update(X, boot, adopt=det.drift_state)
                outs = [out]
                if out.get("adopted"):
                    ctx.count("near_ties_adopted")
            ctx.count("updates_checked" if op == "update" else "set_reference_checked")
            # ---- comparisons
            if det.total_batches != m.total or det.batches_since_reset != m.bsr:
                ctx.violation("C07/counters", "call %d (%s): total_batches/batches_since_reset = %r/%r, specification %d/%d" % (
                    i, op, det.total_batches, det.batches_since_reset, m.total, m.bsr), **base)
                return
            if det.drift_state != m.state:
                ctx.violation("C07/decision",
                              "call %d (%s, epoch batch %d): drift_state %r, specification %r (epsilon %r, threshold %r; implementation beta %r)" % (
                                  i, op, m.bsr, det.drift_state, m.state, outs[-1]["eps"] if outs else None, outs[-1]["beta"] if outs else None,
                                  getattr(det, "beta", None)), **base)
                return
            if op == "set_reference" and not outs:
                continue
            out = outs[-1]
            if not close(float(det.current_distance), out["dist"], rtol=1e-9, atol=1e-12):
                ctx.violation("C07/distance", "call %d: current_distance %r, specification %r (bins %d, reference %d rows)" % (
                    i, float(det.current_distance), out["dist"], out["bins"], out["nref_before"]), **base)
                return
            lim = {"H": SQ2, "KL": SQLN2}.get(cfg["divergence"], 1.0)
            if not (-1e-12 <= float(det.current_distance) <= lim + 1e-9):
                ctx.violation("C07/distance_bound", "call %d: distance %r outside [0, %r]" % (i, float(det.current_distance), lim), **base)
                return
            for name, got, exp in (("distances", det.distances, m.distances), ("epsilon_values", det.epsilon_values, m.epsilon_values),
                                   ("thresholds", det.thresholds, m.thresholds)):
                err = dict_close(got, exp)
                if err:
                    ctx.violation("C07/" + name, "call %d: %s differs from the specification: %s" % (i, name, err), **base)
                    return
            if out["beta"] is not None and not close(float(det.beta), out["beta"], rtol=1e-9, atol=1e-12):
                ctx.violation("C07/threshold", "call %d: beta %r, specification %r" % (i, float(det.beta), out["beta"]), **base)
                return
            exp_eps = ([boot] if (op == "update" and out["needs_boot"]) else []) + out["eps_list"]
            got_eps = [float(v) for v in det.epsilon]
            if len(got_eps) != len(exp_eps) or not all(close(a, b, 1e-9, 1e-12) for a, b in zip(got_eps, exp_eps)):
                ctx.violation("C07/epsilon_list", "call %d: epsilon %r, specification %r" % (i, got_eps, exp_eps), **base)
                return
            if m.state != "drift" and det.reference_n != out["nref"]:
                ctx.violation("C07/reference", "call %d (no drift): reference_n %r, specification %d (batch must be appended)" % (i, det.reference_n, out["nref"]), **base)
                return
            refdf = np.asarray(det.reference)
            if refdf.shape != m.ref.shape or not np.array_equal(refdf, m.ref):
                ctx.violation("C07/reference", "call %d (%s): the detector's reference (%s rows) is not %s" % (
                    i, m.state, refdf.shape[0], "the drifted batch" if m.state == "drift" else "reference + batch (%d rows)" % len(m.ref)), **base)
                return
            if out["feps"] is not None and m.bsr >= 2:
                fe = [float(v) for v in det.feature_epsilons]
                if not all(close(a, b, 1e-9, 1e-12) for a, b in zip(fe, out["feps"])):
                    ctx.violation("C07/feature_epsilons", "call %d: feature_epsilons %r, specification %r" % (i, fe, out["feps"]), **base)
                    return
            if m.state == "drift":
                drifts += 1
                ctx.count("drifts")
                ctx.count("drifts:db%d:%s" % (db, cfg["statistic"]))
                ctx.count("drifts:div:" + cfg["divergence"])
                if cfg["d"] > 1:
                    fi = det.feature_info
                    fdv = [float(v) for v in fi["Feature_Distances"]]
                    arg = int(np.argmax(out["feps"]))
                    named = fi["Significant_drift_in_variable "]
                    ok = all(close(a, b, 1e-9, 1e-12) for a, b in zip(fdv, out["fd"])) and len(fdv) == cfg["d"]
                    # ties in the per-feature change: any maximiser is accepted
                    ok2 = abs(out["feps"][named] - out["feps"][arg]) <= 1e-12 if isinstance(named, (int, np.integer)) and 0 <= named < cfg["d"] else False
                    ctx.count("feature_info_checked")
                    if not (ok and ok2):
                        ctx.violation("C07/feature_info", "call %d (drift): feature_info %r; per-feature distances %r, per-feature changes %r (largest: %d)" % (
                            i, fi, out["fd"], out["feps"], arg), **base)
                        return
            if out["beta"] is not None and drifts >= 1:
                decided_after_drift = True
            # bootstrap validation from the RNG log
            if op == "update" and out["needs_boot"]:
                sub = cfg["subsets"]
                refb = out["ref_before"]
                size = int((1 - (1 / sub)) * len(refb))
                if not ev:
                    # the estimate was not drawn through numpy.random.choice: it cannot be validated here (it remains an input)
                    ctx.count("bootstrap_draws_not_observed")
                    continue
                okshape = len(ev) == sub and all(e[1][0] == len(refb) and e[2].get("size") == size and e[2].get("replace") is True for e in ev)
                if not okshape:
                    ctx.violation("C07/bootstrap_draws", "call %d: the RNG log shows %d draws %s; expected %d draws of %d rows out of %d with replacement" % (
                        i, len(ev), [(e[1], e[2].get("size")) for e in ev][:3], sub, size, len(refb)), **base)
                    return
                mins = [min(refb[:, f].min(), X[:, f].min()) for f in range(cfg["d"])]
                maxs = [max(refb[:, f].max(), X[:, f].max()) for f in range(cfg["d"])]
                bins = int(math.floor(math.sqrt(len(refb))))
                e0 = H.bootstrap_epsilon(m.div, refb, [e[3] for e in ev], bins, mins, maxs, sub)
                ctx.count("bootstraps_validated")
                if not (close(boot, e0, 1e-9, 1e-12) and boot >= 0):
                    ctx.violation("C07/bootstrap_value", "call %d: published bootstrap estimate %r, recomputed from the logged draws %r" % (i, boot, e0), **base)
                    return
            elif op == "update" and ev:
                ctx.violation("C07/bootstrap_draws", "call %d (epoch batch %d): %d unexpected bootstrap draws" % (i, m.bsr, len(ev)), **base)
                return
            # probe: aligned histograms at the library boundary
            if probe is not None and op == "update":
                newc = probe.calls[ncall0:]
                main = newc[-cfg["d"]:] if not out["needs_boot"] else newc[: cfg["d"]]
                if was_drift and db == 1:
                    main = newc[cfg["d"]: 2 * cfg["d"]]
                for (r, t) in main:
                    ctx.count("probe_calls_checked")
                    if not (len(r) == len(t) == out["bins"] and r.sum() == out["nref_before"] and t.sum() == len(X)):
                        ctx.violation("C07/histograms", "call %d: divergence function was handed histograms with %d / %d bins holding %d / %d points; expected %d bins "
                                      "holding all %d reference and %d batch points" % (i, len(r), len(t), r.sum(), t.sum(), out["bins"], out["nref_before"], len(X)), **base)
                        return
    if drifts >= 2:
        ctx.count("histories_3plus_epochs")
    ctx.nontrivial = drifts >= 1 and decided_after_drift
    ctx.sample = {"cfg": cfg, "calls": [(op, list(X.shape)) for op, X in calls], "drifts": drifts, "dataframe_input": as_frame}
    ctx.digest = "%s-%s" % (sorted(cfg.items()), hash(tuple(X.tobytes() for _, X in calls)))


def run_axiom(case, ctx):
    rng = gen.rng_for(case["seed"])
    cfg = draw_cfg(rng)
    cfg["detect_batch"] = int(rng.choice([2, 3]))
    n = int(rng.integers(8, 120))
    d = cfg["d"]
    R = rng.normal(0, 1, size=(n, d))
    B = rng.normal(float(rng.choice([0, 0.5, 2])), float(rng.choice([0.5, 1, 2])), size=(n, d))
    if rng.random() < 0.2:
        R, B = np.round(R * 2), np.round(B * 2)
    base = dict(cfg=cfg, R=R.tolist() if R.size < 300 else "omitted", B=B.tolist() if B.size < 300 else "omitted")
    lim = {"H": SQ2, "KL": SQLN2}.get(cfg["divergence"], 1.0)
    a, _, _ = make(cfg)
    a.set_reference(R.copy())
    a.update(R[rng.permutation(n)].copy())
    ctx.count("axiom_identity")
    if abs(float(a.current_distance)) > 1e-9:
        ctx.violation("C07/axiom_identity", "distance between a reference and the same rows as test batch is %r" % float(a.current_distance), **base)
        return
    b1, _, _ = make(cfg)
    b1.set_reference(R.copy())
    b1.update(B.copy())
    b2, _, _ = make(cfg)
    b2.set_reference(B.copy())
    b2.update(R.copy())
    d1, d2 = float(b1.current_distance), float(b2.current_distance)
    ctx.count("axiom_symmetry")
    if abs(d1 - d2) > 1e-9:
        ctx.violation("C07/axiom_symmetry", "equal sizes (%d rows): distance(R -> B) = %r, distance(B -> R) = %r" % (n, d1, d2), **base)
        return
    if not (-1e-12 <= d1 <= lim + 1e-9):
        ctx.violation("C07/distance_bound", "distance %r outside [0, %r]" % (d1, lim), **base)
        return
    ctx.nontrivial = d1 > 1e-6
    ctx.sample = {"kind": "axiom", "cfg": cfg, "rows": n, "distance": d1}
    ctx.digest = "ax-%s-%s" % (hash(R.tobytes()), hash(B.tobytes()))
