"""C16 - only agreement between label and prediction matters (DDM, EDDM, STEPD, ADWINAccuracy; confusion cell for
LinearFourRates); documented-unused arguments never influence the outputs.  Twin differential: the trace under every
re-encoding / junk argument must equal the canonical trace."""
import warnings

import numpy as np
import pandas as pd

from .. import gen, rngtap, zoo

ID = "C16"
LEVEL = "exploration"
ANCHOR_FILES = ["menelaus/concept_drift/ddm.py", "menelaus/concept_drift/eddm.py", "menelaus/concept_drift/stepd.py",
                "menelaus/concept_drift/adwin_accuracy.py", "menelaus/concept_drift/lfr.py", "menelaus/detector.py"]
RULE = (
    "encoding cases: one per (error-based detector, parameters, outcome sequence): the canonical run (y_true = 1, y_pred = 1 - error as "
    "Python ints) is compared, output by output after every sample, with runs under injective re-labelings (other integers, strings, "
    "booleans, floats, numpy scalars, three and more classes), container shapes (1-element list / ndarray / Series / 2-d array) and "
    "per-sample substitutions of a pair by another pair with the same agreement; LinearFourRates under the encodings of 0/1 that are "
    "valid indices.  Unused-argument cases: every detector run with and without junk in the arguments it documents as unused.  "
    "Non-trivial = the canonical trace contains a drift; distinct = (detector, parameters, sequence digest)."
)
ASSUMPTIONS = [
    "LinearFourRates is driven with 0/1 labels in encodings that can index its confusion matrix (ints, bools, numpy ints / bools, "
    "1-element containers); floats and strings are outside its documented domain",
    "stochastic detectors run under the same per-call numpy seed in both runs",
]
ERR = ("DDM", "EDDM", "STEPD", "ADWINAccuracy")


def encoders(rng):
    """name -> function (y_true_bit, error_bit, i) -> (y_true, y_pred) preserving agreement"""
    def mk(lbl):
        return lambda t, e, i: (lbl[t], lbl[t ^ e])

    encs = {
        "ints": mk({0: 7, 1: -3}),
        "strings": mk({0: "cat", 1: "dog"}),
        "strings_common_prefix": mk({0: "label_a", 1: "label_b"}),
        "big_ints": mk({0: 2 ** 53, 1: 2 ** 53 + 1}),
        "ints_equal_as_bool": mk({0: 2, 1: 3}),
        "bools": mk({0: False, 1: True}),
        "floats": mk({0: 0.5, 1: 2.25}),
        # distinct labels that are numerically close: only equality may matter, not closeness
        "floats_adjacent": mk({0: 1.0, 1: float(np.nextafter(1.0, 2.0))}),
        "floats_large_close": mk({0: 1.0e6, 1: 1.0e6 + 1.0}),
        "float32_close": mk({0: np.float32(7.0), 1: np.float32(7.00001)}),
        "np_int64": mk({0: np.int64(4), 1: np.int64(9)}),
        "np_float32": mk({0: np.float32(1.5), 1: np.float32(-1.5)}),
        "np_str": mk({0: np.str_("a"), 1: np.str_("b")}),
        "list1": lambda t, e, i: ([t], [t ^ e]),
        "array1": lambda t, e, i: (np.array([t]), np.array([t ^ e])),
        "array2d": lambda t, e, i: (np.array([[t]]), np.array([[t ^ e]])),
        "series1": lambda t, e, i: (pd.Series([t]), pd.Series([t ^ e])),
    }
    classes = ["r", "g", "b", "y", "k"]

    def multi(t, e, i):
        a = classes[(i * 7 + t) % 5]
        return (a, a) if e == 0 else (a, classes[(i * 7 + t + 1 + i % 3) % 5])

    encs["five_classes_varying_pairs"] = multi
    many = ["c_%d" % k for k in range(1, 13)]  # class names of different lengths sharing a prefix; the first label seen is the shortest

    def prefixed(t, e, i):
        if i == 0:
            return ("c_1", "c_1") if e == 0 else ("c_1", "c_10")
        a = many[(i * 5 + t) % 12]
        return (a, a) if e == 0 else (a, many[(i * 5 + t + 9) % 12] if many[(i * 5 + t + 9) % 12] != a else many[(i * 5 + t + 1) % 12])

    encs["many_prefixed_class_names_short_first"] = prefixed
    # numeric type changes along the stream: ints first, floats later
    encs["int_first_then_floats"] = lambda t, e, i: ((1, 1 + e) if i == 0 else ((1.2, 1.2) if e == 0 else (1.2, 1.7)))
    encs["object_arrays"] = lambda t, e, i: (np.array([["a", "b"][t]], dtype=object), np.array([["a", "b"][t ^ e]], dtype=object))
    # the two labels of one sample wrapped independently (a scalar from the data set, a 1-element prediction from a model ...)
    encs["scalar_vs_list"] = lambda t, e, i: (t, [t ^ e]) if i % 2 else ([t], t ^ e)
    encs["tuple_vs_list"] = lambda t, e, i: ((t,), [t ^ e])
    encs["nested_list_vs_list"] = lambda t, e, i: ([[t]], [t ^ e])
    encs["scalar_vs_array"] = lambda t, e, i: (t, np.array([t ^ e])) if i % 2 else (np.array([[t]]), t ^ e)
    encs["series_vs_scalar"] = lambda t, e, i: (pd.Series([t]), t ^ e)
    sl = ["no", "yes"]
    encs["str_vs_object_array"] = lambda t, e, i: (sl[t], np.array([sl[t ^ e]], dtype=object)) if i % 2 else (np.array([sl[t]], dtype=object), sl[t ^ e])
    encs["str_array_vs_string_series"] = lambda t, e, i: (np.array([sl[t]]), pd.Series([sl[t ^ e]]))
    encs["object_series_vs_str"] = lambda t, e, i: (pd.Series([sl[t]], dtype=object), sl[t ^ e])
    encs["series_to_numpy_vs_np_str"] = lambda t, e, i: (pd.Series([sl[t]]).to_numpy(), np.str_(sl[t ^ e]))
    # one-element Series cut out of a label column: its index is the row number / row name, not 0
    encs["series_row_slices"] = lambda t, e, i: (pd.Series([t], index=[i + 3]), pd.Series([t ^ e], index=["row%d" % i]))
    # class names that look like numbers: different strings are different classes whatever they would parse to
    encs["zero_padded_codes"] = mk({0: "1", 1: "01"})
    encs["decimal_spellings"] = mk({0: "2", 1: "2.0"})
    encs["stringified_missing"] = mk({0: "nan", 1: "None"})
    encs["digit_string_vs_number"] = lambda t, e, i: (("7", "7") if e == 0 else ("7", 7)) if t else ((3, 3) if e == 0 else ("3", 3))
    # one mutable container per argument, refilled in place before every call (a caller's label buffers)
    bufs = {"a": (np.zeros(1, dtype=np.int64), np.zeros(1, dtype=np.int64)), "l": ([0], [0]), "s": (pd.Series([0]), pd.Series([0]))}

    def reused(kind):
        def f(t, e, i):
            bt, bp = bufs[kind]
            if kind == "s":
                bt.iloc[0], bp.iloc[0] = t, t ^ e
            else:
                bt[0], bp[0] = t, t ^ e
            return bt, bp
        return f

    encs["reused_array_buffers"] = reused("a")
    encs["reused_list_buffers"] = reused("l")
    encs["reused_series_buffers"] = reused("s")
    encs["pair_substitution"] = lambda t, e, i: ((i % 4, i % 4) if e == 0 else (i % 4, (i + 1 + i % 2) % 4))
    return encs


LFR_ENC = {
    "bools": lambda t, p: (bool(t), bool(p)),
    "np_int64": lambda t, p: (np.int64(t), np.int64(p)),
    "np_bool": lambda t, p: (np.bool_(t), np.bool_(p)),
    "list1": lambda t, p: ([t], [p]),
    "array1": lambda t, p: (np.array([t]), np.array([p])),
    "series1": lambda t, p: (pd.Series([t]), pd.Series([p])),
    "np_int8_2d": lambda t, p: (np.array([[t]], dtype=np.int8), np.array([[p]], dtype=np.int8)),
    "object_array_python_bool": lambda t, p: (np.array([bool(t)], dtype=object), np.array([bool(p)], dtype=object)),
    "object_series_python_bool": lambda t, p: (pd.Series([bool(t)], dtype=object), pd.Series([bool(p)], dtype=object)),
    "object_array_python_int": lambda t, p: (np.array([int(t)], dtype=object), np.array([int(p)], dtype=object)),
}


def junk(rng, i):
    return [None, "junk", 3.5, np.arange(6).reshape(3, 2), pd.DataFrame({"a": [1, 2], "b": [3, 4]}), [1, 2, 3], {"k": 1}][i % 7]


def cases(tier, seed):
    n = 30 if tier == "quick" else 350
    out = []
    for name in ERR + ("LinearFourRates",):
        for i in range(n):
            out.append({"id": "enc/%s/%d" % (name, i), "kind": "enc", "det": name, "seed": [seed, 16, i], "cost": 3 if name == "LinearFourRates" else 1})
    for name in zoo.ALL:
        for i in range(max(6, n // 3)):
            out.append({"id": "unused/%s/%d" % (name, i), "kind": "unused", "det": name, "seed": [seed, 160, i],
                        "cost": 4 if name in ("PCACD", "KdqTreeStreaming", "LinearFourRates") else 1})
    for i in range(max(6, n // 3)):
        out.append({"id": "unused/MD3/%d" % i, "kind": "md3", "det": "MD3", "seed": [seed, 1600, i], "cost": 1})
    # fresh interpreters: which encoding of the classes a process happens to see first must not matter (process-wide memos)
    for i in range(6 if tier == "quick" else 24):
        out.append({"id": "fresh/%d" % i, "kind": "fresh", "det": "process", "order": i, "seed": [seed, 16000, i], "cost": 6})
    return out


def run_md3(case, ctx):
    """MD3 documents y_true / y_pred of update as unused: the protocol trace with junk in them must equal the trace without"""
    from . import c19

    rng = gen.rng_for(case["seed"], "MD3")
    k = int(rng.choice([2, 3]))
    cfg = dict(N=int(rng.integers(max(4, k), 16)), k=k, oracle_len=int(rng.integers(k, 6)), sensitivity=float(rng.choice([0.0, 0.5, 1.0, 2.0])),
               noise=float(rng.choice([0.1, 0.3, 0.45])), ref_seed=int(rng.integers(0, 10 ** 6)))
    letters = [str(c) for c in rng.choice(["U1", "U0"], size=int(rng.integers(60, 160)))]
    labels = [str(c) for c in rng.choice(["L+", "L-"], size=len(letters) * 4)]
    traces = []
    for junked in (False, True):
        r = c19.build(cfg, ctx, dict(cfg=cfg))
        if r is None:
            return
        det, m = r
        tr = []
        li = 0
        for i, c in enumerate(letters):
            while det.waiting_for_oracle:
                op, arg, lab = c19.call_args(labels[li % len(labels)], m)
                li += 1
                det.give_oracle_label(arg)
                m.oracle.append(lab)
                if len(m.oracle) == cfg["oracle_len"]:
                    m.oracle = []
                tr.append(c19.impl_snapshot(det))
            op, arg, _ = c19.call_args(c, m)
            if junked:
                det.update(arg, y_true=junk(rng, i), y_pred=junk(rng, i + 2))
            else:
                det.update(arg)
            tr.append(c19.impl_snapshot(det))
        traces.append(tr)
    ctx.count("unused_argument_runs_compared")
    ctx.count("steps_compared", len(traces[0]))
    for j, (a, b) in enumerate(zip(*traces)):
        if not c19.snap_equal(a, b):
            ctx.violation("C16/MD3/unused_argument", "junk in MD3.update's documented-unused y_true / y_pred changed its state at call %d: %r vs %r" % (j, b, a), cfg=cfg, step=j)
            return
    ctx.nontrivial = any(s[0] == "drift" for s in traces[0])
    ctx.sample = {"kind": "unused arguments", "detector": "MD3", "cfg": cfg, "calls": len(traces[0])}
    ctx.digest = "unused-MD3-%s" % sorted(cfg.items())


def targets(tier):
    k = 1 if tier == "quick" else 10
    t = {"fresh_process_scenarios": 4 if tier == "quick" else 16, "encoded_runs_compared": 1500 * k, "unused_argument_runs_compared": 110 * k, "steps_compared": 200000 * k}
    for name in ERR + ("LinearFourRates",):
        t["drift_histories:" + name] = 8 * k
    return t


def trace_run(name, params, feeder, n, key, ctx):
    det = zoo.make(name, params)
    tr = []
    for i in range(n):
        np.random.seed(rngtap.seed_for(key, i))
        try:
            feeder(det, i)
        except ValueError as e:
            if name == "CUSUM" and "Standard deviation is 0" in str(e):
                tr.append({"state": "documented ValueError (zero variance)"})
                break
            raise
        tr.append(zoo.observe(det, name))
    return tr


def first_diff(a, b):
    for i, (x, y) in enumerate(zip(a, b)):
        k = zoo.obs_equal(x, y)
        if k is not None:
            return i, k, x[k], y[k]
    return None


def run_case(case, ctx):
    warnings.simplefilter("ignore")
    name = case["det"]
    if case["kind"] == "md3":
        return run_md3(case, ctx)
    if case["kind"] == "fresh":
        import json as _json
        import os as _os
        import subprocess as _sp
        import sys as _sys

        script = _os.path.join(_os.path.dirname(_os.path.dirname(_os.path.abspath(__file__))), "scripts", "fresh_process_encodings.py")
        try:
            r = _sp.run([_sys.executable, script, str(case["order"]), str(case["seed"][0])], capture_output=True, text=True, timeout=300)
            res = _json.loads(r.stdout.strip().splitlines()[-1])
        except Exception as e:  # noqa
            ctx.mark_inconclusive("fresh-process scenario did not produce a result: %s" % e)
            return
        ctx.count("fresh_process_scenarios")
        ctx.count("steps_compared", res.get("steps", 0))
        if not res["ok"]:
            if res.get("crash") is False:
                ctx.mark_inconclusive("fresh-process scenario failed outside menelaus: " + res["msg"])
                return
            ctx.violation("C16/process_wide_encoding_memory", res["msg"], order=case["order"])
            return
        ctx.nontrivial = True
        ctx.sample = {"kind": "fresh interpreter: a detector sees one encoding first, others are run afterwards", "order": case["order"]}
        ctx.digest = "fresh-%d" % case["order"]
        return
    rng = gen.rng_for(case["seed"], name, case["kind"])
    params = zoo.draw_params(name, rng)
    key = case.get("seed_key", case["id"])
    if case["kind"] == "enc":
        n = int(rng.integers(120, 420))
        if name == "LinearFourRates":
            from .c06 import gen_pairs

            pairs = gen_pairs(rng, n)
            if case["seed"][-1] % 2 == 0:
                # another detector in the same process has seen the same classes in other encodings first (floats, then booleans): what one
                # detector was given must not colour what the next one is given
                other = zoo.make("DDM", zoo.draw_params("DDM", np.random.default_rng(1)))
                for yt_, yp_ in pairs[:40]:
                    other.update(float(yt_), float(yp_))
                    other.update(bool(yt_), np.bool_(yp_))
                ctx.count("lfr_runs_after_other_encodings_seen_in_process")
            canon = trace_run(name, params, lambda d, i: d.update(pairs[i][0], pairs[i][1]), n, key, ctx)
            for en, f in LFR_ENC.items():
                tr = trace_run(name, params, lambda d, i: d.update(*f(*pairs[i])), n, key, ctx)
                ctx.count("encoded_runs_compared")
                ctx.count("steps_compared", n)
                df = first_diff(canon, tr)
                if df:
                    ctx.violation("C16/LinearFourRates/encoding/" + en, "labels encoded as %s: output %r differs at sample %d (%r vs canonical %r)" % (en, df[1], df[0], df[3], df[2]),
                                  params=params, pairs=pairs[: df[0] + 1])
                    return
            drift = any(o["state"] == "drift" for o in canon)
        else:
            bits = gen.bernoulli_piecewise(rng, n, seg=(3, 100))
            tb = [int(v) for v in rng.integers(0, 2, size=n)]
            canon = trace_run(name, params, lambda d, i: d.update(1, 1 - bits[i]), n, key, ctx)
            for en, f in encoders(rng).items():
                def feeder(d, i, f=f):
                    yt, yp = f(tb[i], bits[i], i)
                    d.update(yt, yp)
                tr = trace_run(name, params, feeder, n, key, ctx)
                ctx.count("encoded_runs_compared")
                ctx.count("steps_compared", n)
                df = first_diff(canon, tr)
                if df:
                    ctx.violation("C16/%s/encoding/%s" % (name, en), "labels presented as %s: output %r differs at sample %d (%r vs canonical %r)" % (en, df[1], df[0], df[3], df[2]),
                                  params=params, errors=bits[: df[0] + 1])
                    return
            drift = any(o["state"] == "drift" for o in canon)
        if drift:
            ctx.count("drift_histories:" + name)
        ctx.nontrivial = drift
        ctx.sample = {"kind": "encodings", "detector": name, "params": params, "samples": n, "encodings": list(LFR_ENC if name == "LinearFourRates" else encoders(rng))}
        ctx.digest = "enc-%s-%s-%s" % (name, sorted((a, str(b)) for a, b in params.items()), case["seed"])
        return
    # unused arguments
    items = zoo.workload(name, rng, params)
    k = zoo.kind(name)
    n = len(items)

    def plain(d, i):
        zoo.feed(d, name, items[i], first=(i == 0))

    def junked(d, i):
        it = items[i]
        j1, j2 = junk(rng, i), junk(rng, i + 3)
        if k == "y":
            d.update(it[0], it[1], X=j1) if i % 2 else d.update(it[0], it[1], j1)
        elif k == "x1":
            d.update(it, y_true=j1, y_pred=j2) if i % 2 else d.update(it, j1, j2)
        elif k == "xd":
            d.update(np.asarray(it).reshape(1, -1).copy(), y_true=j1, y_pred=j2)
        else:
            if i == 0 and name != "KdqTreeBatch":
                d.set_reference(np.asarray(it).copy(), y_true=j1, y_pred=j2)
            else:
                d.update(np.asarray(it).copy(), y_true=j1, y_pred=j2)

    canon = trace_run(name, params, plain, n, key, ctx)
    tr = trace_run(name, params, junked, n, key, ctx)
    ctx.count("unused_argument_runs_compared")
    ctx.count("steps_compared", n)
    df = first_diff(canon, tr)
    if df:
        ctx.violation("C16/%s/unused_argument" % name, "junk in the documented-unused arguments changed output %r at call %d (%r vs %r)" % (df[1], df[0], df[3], df[2]),
                      params=params, step=df[0])
        return
    ctx.nontrivial = any(o["state"] == "drift" for o in canon)
    ctx.sample = {"kind": "unused arguments", "detector": name, "params": params, "calls": n}
    ctx.digest = "unused-%s-%s-%s" % (name, sorted((a, str(b)) for a, b in params.items()), case["seed"])
