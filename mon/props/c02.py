"""C02 - clean slate after a drift / a new reference: twin differential against a freshly constructed detector
per epoch (documented carry-over only), under an identical numpy seed schedule."""
import warnings

import numpy as np

from .. import gen, rngtap, zoo

ID = "C02"
LEVEL = "exploration"
DETS = ("DDM", "EDDM", "STEPD", "PageHinkley", "CUSUM", "KdqTreeStreaming", "KdqTreeBatch", "HDDDM", "CDBD", "NNDVI")
ANCHOR_FILES = ["menelaus/concept_drift/ddm.py", "menelaus/concept_drift/eddm.py", "menelaus/concept_drift/stepd.py",
                "menelaus/change_detection/page_hinkley.py", "menelaus/change_detection/cusum.py", "menelaus/data_drift/kdq_tree.py",
                "menelaus/data_drift/histogram_density_method.py", "menelaus/data_drift/nndvi.py"]
RULE = (
    "one case per (detector, parameter draw, generated history with several drifts at arbitrary spacing, incl. drifts during the next "
    "epoch's warm-up; batch histories also carry explicit set_reference calls at random positions, right after a drift and twice in a "
    "row).  Whenever the running detector reports drift (or receives set_reference) a twin is constructed from scratch with the same "
    "parameters and only the documented carry-over (CUSUM: mean / population sd of the last burn_in observations; batch detectors: the "
    "drifted batch resp. the given reference) and both are fed the same inputs under the same per-call numpy seed; after every update the "
    "state, retraining_recs (shifted by the number of items seen before) and the public statistics (Page-Hinkley "
    "table, STEPD accuracies, HDM distance / epsilons / beta / reference size / feature epsilons, kdq-tree plot frame counts and "
    "Kulldorff values, NN-DVI reference) must be equal.  Non-trivial = at least 2 epochs compared; distinct = (detector, parameters, "
    "input digest)."
)
ASSUMPTIONS = [
    "the seed schedule seeds numpy's global generator before every call of the running detector and before the corresponding call of the "
    "twin (a twin's set_reference is issued inside the seeded step in which the running detector rebuilds its reference)",
    "floats compared with rtol 1e-9; decisions compared exactly",
]


def cases(tier, seed):
    n = 45 if tier == "quick" else 500
    out = []
    for name in DETS:
        cost = {"KdqTreeStreaming": 4, "KdqTreeBatch": 4, "HDDDM": 2, "CDBD": 2, "NNDVI": 3}.get(name, 1)
        for i in range(n):
            out.append({"id": "%s/%d" % (name, i), "det": name, "seed": [seed, 2, i], "cost": cost})
    return out


def targets(tier):
    k = 1 if tier == "quick" else 10
    t = {"twin_steps_compared": 20000 * k, "cusum_epochs_with_carried_target_exactly_zero": 10 * k}
    for name in DETS:
        t["twin_epochs:" + name] = 25 * k
    for name in ("KdqTreeBatch", "HDDDM", "CDBD", "NNDVI"):
        t["explicit_set_reference:" + name] = 20 * k
    return t


def stats(det, name, epoch_pos):
    """public statistics compared between running detector and twin"""
    o = {"state": det.drift_state}
    if name == "STEPD":
        o["acc"] = [zoo.fl(det.recent_accuracy()), zoo.fl(det.past_accuracy()), zoo.fl(det.overall_accuracy())]
    elif name == "PageHinkley":
        df = det.to_dataframe()
        o["rows"] = len(df)
        o["last"] = [zoo.fl(v) for v in df.iloc[-1].tolist()] if len(df) else None
    elif name in ("HDDDM", "CDBD"):
        o["distance"] = zoo.fl(det.current_distance)
        o["epsilon"] = [zoo.fl(v) for v in det.epsilon]
        o["reference_n"] = det.reference_n if det.drift_state != "drift" else None
        if epoch_pos >= 2 and hasattr(det, "beta") and det.detect_batch != 3 or epoch_pos >= 3:
            o["beta"] = zoo.fl(getattr(det, "beta", np.nan))
        if epoch_pos >= 2:
            o["feature_epsilons"] = [zoo.fl(v) for v in det.feature_epsilons]
    elif name in ("KdqTreeStreaming", "KdqTreeBatch"):
        try:
            df = det.to_plotly_dataframe()
            o["plot"] = [df["cell_count"].tolist(), df["count_diff"].tolist(), [zoo.fl(v) for v in df["kss"].tolist()], df["depth"].tolist()]
        except Exception:
            o["plot"] = None
    elif name == "NNDVI":
        o["reference"] = np.asarray(det.reference_batch).tolist()
    return o


def run_case(case, ctx):
    warnings.simplefilter("ignore")
    name = case["det"]
    rng = gen.rng_for(case["seed"], name)
    params = zoo.draw_params(name, rng)
    items = zoo.workload(name, rng, params)
    if name in ("CUSUM", "PageHinkley") and rng.random() < (0.5 if name == "CUSUM" else 0.3):
        # whole-number signals (counts, signed differences): carried-over statistics take exact values such as 0
        out_, lvl = [], 0
        while len(out_) < len(items):
            lvl = int(np.clip(lvl + int(rng.integers(-3, 4)), -4, 4))
            out_ += [float(round(v)) for v in rng.normal(lvl, float(rng.choice([0.6, 1.0, 2.0])), size=int(rng.integers(3, 60)))]
        if rng.random() < 0.5:
            # oscillating signed differences: windows that sum to exactly 0 are common
            amp = [int(a) for a in rng.integers(1, 4, size=len(items))]
            out_ = [float(a if (i_ // int(1 + (i_ // 40) % 2)) % 2 else -a) for i_, a in enumerate(amp)]
        items = out_[: len(items)] if name == "CUSUM" else [v + 6.0 for v in out_[: len(items)]]
        if name == "CUSUM":
            # short warm-up and a low threshold: many epochs, each starting from a carried-over window of a few whole numbers
            params.update(burn_in=int(rng.choice([2, 3, 4, 5, 10])), threshold=float(rng.choice([0.5, 1.0, 2.0, 4.0])))
            if rng.random() < 0.7:
                params.update(target=None, sd_hat=None)
        ctx.count("whole_number_streams")
    if name == "NNDVI" and rng.random() < 0.4:
        # neighbourhoods larger than single batches (they are taken over the pooled points): batches of k/2+1 .. 3k rows, so a drift
        # can be reported on a batch that is shorter than k_nn
        kk = int(rng.choice([8, 12, 20]))
        params["k_nn"] = kk
        items = gen.batch_sequence(rng, len(items), items[0].shape[1], size=(kk // 2 + 2, 3 * kk), shift_p=0.5, dup_p=0.0, integer_p=0.0, const_p=0.0)
        ctx.count("nndvi_histories_with_batches_shorter_than_k")
    coded = False
    if name in ("HDDDM", "CDBD", "KdqTreeBatch") and rng.random() < 0.12:
        # bounded integer codes in batches of one size, re-baselined often (ranges and bin counts repeat exactly between references)
        m_ = int(rng.integers(16, 90))
        d_ = np.asarray(items[0]).shape[1]
        hi_ = [int(rng.choice([1, 4, 9])) for _ in range(d_)]
        items = [np.column_stack([np.r_[0, h_, rng.integers(0, h_ + 1, size=m_ - 2)] for h_ in hi_]).astype(float) for _ in range(len(items))]
        coded = True
        ctx.count("histories_of_bounded_integer_codes")
    int_first = False
    sd0_ = np.std(np.asarray(items[0], dtype=float), axis=0) if zoo.kind(name) == "batch" else None
    if zoo.kind(name) == "batch" and rng.random() < 0.15 and bool(np.all(sd0_ > 1e-6 * (np.abs(np.asarray(items[0])).max(axis=0) + 1e-300))):
        # the first reference holds whole numbers and arrives with an integer dtype; everything after it is floating point
        # (per feature: centred and scaled to a few units, so that no column degenerates)
        items[0] = np.round((np.asarray(items[0]) - np.mean(items[0], axis=0)) / sd0_ * 3)
        int_first = True
        ctx.count("integer_typed_first_reference")
    k = zoo.kind(name)
    key = case.get("seed_key", case["id"])
    det = zoo.make(name, params)
    twin = None            # fresh detector of the current epoch (None during the first epoch)
    twin_pending = None    # ("drift", batch) / ("setref", batch): twin must be built at the next call
    offset = 0             # number of items the running detector saw before the twin's first item
    epoch_pos = 0
    epochs_compared = 0
    steps = 0
    hist = []
    # batch histories: explicit set_reference injections
    ops = []
    if k == "batch":
        for i, it in enumerate(items):
            if i == 0 and name != "KdqTreeBatch":
                ops.append(("set_reference", it))
            elif rng.random() < (0.3 if coded else 0.07) and i > 1:
                ops.append(("set_reference", it))
                if rng.random() < 0.3:
                    ops.append(("set_reference", items[int(rng.integers(0, len(items)))]))
            else:
                ops.append(("update", it))
    else:
        ops = [("update", it) for it in items]
    prev_state = None
    last_batch = None
    for i, (op, item) in enumerate(ops):
        base = dict(detector=name, params=params, step=i, op=op)
        if name == "NNDVI" and op == "update" and getattr(det, "reference_batch", None) is not None:
            pool_ = np.unique(np.vstack([np.asarray(det.reference_batch, dtype=float).reshape(-1, np.asarray(item).shape[1]), np.asarray(item, dtype=float)]), axis=0)
            if len(pool_) <= params["k_nn"]:
                ctx.count("nndvi_updates_skipped_pool_not_larger_than_k")
                continue  # fewer pooled points than neighbours asked for: outside the detector's domain
        # ---- running detector
        np.random.seed(rngtap.seed_for(key, i))
        try:
            if op == "set_reference":
                det.set_reference(np.asarray(item).astype(np.int64) if (int_first and i == 0) else np.asarray(item).copy())
            else:
                zoo.feed(det, name, np.asarray(item).astype(np.int64) if (int_first and i == 0) else item)
        except ValueError as e:
            if name == "CUSUM" and "Standard deviation is 0" in str(e):
                break
            raise
        hist.append(item)
        # ---- twin bookkeeping
        if op == "set_reference":
            twin = zoo.make(name, params)
            np.random.seed(rngtap.seed_for(key, i))
            twin.set_reference(np.asarray(item).copy())
            offset = zoo.counters(det)[0] - zoo.counters(twin)[0]
            epoch_pos = zoo.counters(twin)[1]
            twin_pending = None
            ctx.count("explicit_set_reference:" + name)
            # equivalence is judged from the following update on (as for a drift); what the detector shows between
            # set_reference and that update, and its counters, are not part of this property (counters: C01)
            prev_state = None
            continue
        if prev_state == "drift":
            # this update is the first of a new epoch: build the twin with the documented carry-over
            twin = build_twin(name, params, hist, last_batch, key, i)
            if name == "CUSUM" and twin.target == 0:
                ctx.count("cusum_epochs_with_carried_target_exactly_zero")
            offset = zoo.counters(det)[0] - 1 - (1 if (name in ("HDDDM", "CDBD") and params["detect_batch"] == 1) else 0)
            epochs_compared += 1
            ctx.count("twin_epochs:" + name)
            epoch_pos = 0
            if k == "batch":
                offset = zoo.counters(det)[0] - zoo.counters(twin)[0] - 1
        if twin is not None:
            if not (prev_state == "drift" and k == "batch"):
                np.random.seed(rngtap.seed_for(key, i))
            try:
                zoo.feed(twin, name, item)
            except ValueError as e:
                if name == "CUSUM" and "Standard deviation is 0" in str(e):
                    # the running detector got past this sample (it would have left the loop above otherwise): it is working with
                    # something else than the statistics of the carried-over window
                    ctx.violation("C02/CUSUM/zero_variance_carry_over", "CUSUM (call %d): a fresh detector given the carried-over mean / deviation (%r / %r) raises the "
                                  "documented zero-variance error here, the running detector carries on with state %r" % (
                                      i, getattr(twin, "target", None), getattr(twin, "sd_hat", None), det.drift_state), **base)
                    return
                raise
            epoch_pos += 1
            steps += 1
            ctx.count("twin_steps_compared")
            if compare(det, twin, name, offset, zoo.counters(twin)[1], ctx, base, "update") is False:
                return
        prev_state = det.drift_state
        last_batch = item
    ctx.nontrivial = epochs_compared >= 2
    ctx.sample = {"detector": name, "params": params, "calls": len(ops), "twin_epochs": epochs_compared, "twin_steps": steps}
    ctx.digest = "%s-%s-%s" % (name, sorted((a, str(b)) for a, b in params.items()), case["seed"])


def build_twin(name, params, hist, drifted_batch, key, i):
    p = dict(params)
    if name == "CUSUM":
        tail = [float(np.asarray(v).ravel()[0]) for v in hist[:-1]][-params["burn_in"]:]
        p["target"], p["sd_hat"] = float(np.mean(tail)), float(np.std(tail))
    twin = zoo.make(name, p)
    if zoo.kind(name) == "batch":
        # issued inside the seeded step in which the running detector rebuilds its reference
        np.random.seed(rngtap.seed_for(key, i))
        twin.set_reference(np.asarray(drifted_batch).copy())
    return twin


def compare(det, twin, name, offset, epoch_pos, ctx, base, when):
    a, b = stats(det, name, epoch_pos), stats(twin, name, epoch_pos)
    ra, rb = zoo.recs(det), zoo.recs(twin)
    if ra is not None:
        a["recs"] = [None if v is None else v - offset for v in ra]
        b["recs"] = rb
    bad = zoo.obs_equal(a, b, tol=1e-9)
    if bad is not None:
        ctx.violation("C02/%s/%s" % (name, bad),
                      "%s (call %d, %s): the running detector reports %s = %r, a fresh detector fed only the data since the drift / new reference "
                      "reports %r" % (name, base["step"], when, bad, a[bad], b[bad]), running=a, fresh=b, **base)
        return False
    return True
