"""Interposer on numpy's *global* (legacy) RNG entry points.

menelaus draws all its randomness through attribute look-ups on the numpy.random module at call
time (np.random.choice / permutation / binomial / dirichlet / seed, and DataFrame.sample ->
np.random via pandas' random_state handling).  Inside `with Tap() as tap:` those attributes are
replaced by recording wrappers: tap.events is the ordered log of (function, args summary, result)
actually used by the code under test.  Outside the block numpy is untouched.

seed_for(...) gives the deterministic per-step seed of the harness's seed schedule; twins that must
be observationally equivalent are run under identical schedules."""
import hashlib

import numpy as np

NAMES = ("choice", "permutation", "binomial", "dirichlet", "shuffle", "randint", "random", "rand", "normal", "uniform",
         "random_sample", "standard_normal", "multinomial")


def seed_for(*key):
    h = hashlib.sha1(repr(key).encode()).digest()
    return int.from_bytes(h[:4], "little")


class Tap:
    def __init__(self, record=True, names=NAMES):
        self.events = []
        self.record = record
        self.names = names
        self._orig = {}
        self.seed_calls = []

    def __enter__(self):
        nr = np.random
        for name in self.names:
            orig = getattr(nr, name)
            self._orig[name] = orig
            setattr(nr, name, self._wrap(name, orig))
        oseed = nr.seed
        self._orig["seed"] = oseed

        def seed(*a, **k):
            self.seed_calls.append((a, k))
            return oseed(*a, **k)

        nr.seed = seed
        return self

    def __exit__(self, *exc):
        for name, orig in self._orig.items():
            setattr(np.random, name, orig)
        return False

    def _wrap(self, name, orig):
        events = self.events

        def wrapper(*a, **k):
            res = orig(*a, **k)
            if self.record:
                events.append((name, a, k, res))
            return res

        wrapper.__name__ = name
        return wrapper

    def mark(self):
        return len(self.events)

    def since(self, mark, name=None):
        ev = self.events[mark:]
        if name is not None:
            ev = [e for e in ev if e[0] == name]
        return ev
