"""Workload generators.  Every random choice comes from a private numpy Generator seeded from
[VERIF_SEED, property, case...]; the code under test only ever sees the legacy global RNG, which
the harness seeds explicitly (rngtap.seed_schedule)."""
import numpy as np


def rng_for(*key):
    flat = []
    for k in key:
        if isinstance(k, (list, tuple)):
            flat += [int(x) for x in k]
        elif isinstance(k, str):
            flat += [ord(c) for c in k]
        else:
            flat.append(int(k))
    return np.random.default_rng([abs(x) for x in flat])


def bernoulli_piecewise(rng, n, lo=0.02, hi=0.7, seg=(3, 120), patterns=True):
    """error indicators: piecewise-stationary Bernoulli, with occasional constant runs and
    alternating patterns; abrupt changes at arbitrary distance (also back to back)."""
    out = []
    while len(out) < n:
        L = int(rng.integers(seg[0], seg[1] + 1))
        kind = rng.random()
        if patterns and kind < 0.08:
            out += [0] * L
        elif patterns and kind < 0.14:
            out += [1] * L
        elif patterns and kind < 0.2:
            out += [i % 2 for i in range(L)]
        elif patterns and kind < 0.4:
            p0, p1 = float(rng.choice([lo, 0.05, 0.1])), float(rng.choice([0.3, 0.5, hi]))
            out += [int(rng.random() < p0 + (p1 - p0) * i / max(1, L - 1)) for i in range(L)]
        else:
            p = float(rng.choice([lo, 0.05, 0.1, 0.2, 0.35, 0.5, hi, 0.9]))
            out += [int(x) for x in (rng.random(L) < p)]
    return out[:n]


def level_shift_stream(rng, n, seg=(5, 120), scale_choices=(1.0,), offset=0.0, heavy=False, const=True):
    """real-valued stream with level / variance shifts every few samples"""
    out = []
    mu = float(rng.normal(0, 1))
    while len(out) < n:
        L = int(rng.integers(seg[0], seg[1] + 1))
        r = rng.random()
        if r < 0.6:
            mu += float(rng.choice([-1, 1])) * float(rng.choice([0.5, 1, 2, 4, 8]))
        sd = float(rng.choice([0.1, 0.5, 1.0, 2.0]))
        sc = float(rng.choice(scale_choices))
        if heavy and rng.random() < 0.2:
            x = rng.standard_t(2, size=L) * sd + mu
        elif const and rng.random() < 0.08:
            x = np.full(L, mu)
        elif const and rng.random() < 0.08:
            x = np.round(rng.normal(mu, sd, size=L))
        else:
            x = rng.normal(mu, sd, size=L)
        out += [float(v) * sc + offset for v in x]
    return out[:n]


UNITS = (2.0 ** -30, 2.0 ** -40, 2.0 ** 30)


def batch_sequence(rng, nb, d, size=(8, 120), shift_p=0.35, dup_p=0.15, integer_p=0.1, const_p=0.05, unit_p=0.08):
    """list of 2-d arrays (nb batches, d features) with level / variance shifts between batches; with probability unit_p the whole
    history is expressed in another unit of measurement (a power of two: the same history bit for bit up to the exponent)"""
    mu = rng.normal(0, 1, size=d)
    sd = np.abs(rng.normal(1, 0.3, size=d)) + 0.2
    out = []
    integer = rng.random() < integer_p
    for b in range(nb):
        n = int(rng.integers(size[0], size[1] + 1))
        if rng.random() < shift_p:
            j = int(rng.integers(0, d))
            if rng.random() < 0.7:
                mu = mu.copy()
                mu[j] += float(rng.choice([-1, 1])) * float(rng.choice([1.0, 2.0, 4.0]))
            else:
                sd = sd.copy()
                sd[j] *= float(rng.choice([0.3, 3.0]))
        X = rng.normal(mu, sd, size=(n, d))
        if integer:
            X = np.round(X * 2)
        if rng.random() < dup_p and n >= 4:
            idx = rng.integers(0, n, size=n // 3)
            X[rng.integers(0, n, size=n // 3)] = X[idx]
        if rng.random() < const_p:
            X[:, int(rng.integers(0, d))] = float(np.round(mu[0], 2))
        out.append(X)
    if rng.random() < unit_p:
        u = float(rng.choice(UNITS))
        out = [X * u for X in out]
    return out


def numpyfy(kw):
    """the same parameter values held as numpy scalars (numpy.bool_, numpy.int64, numpy.float64): what a parameter grid kept in an
    array or a DataFrame hands to a constructor"""
    out = {}
    for k, v in kw.items():
        if isinstance(v, bool):
            out[k] = np.bool_(v)
        elif isinstance(v, int):
            out[k] = np.int64(v)
        elif isinstance(v, float):
            out[k] = np.float64(v)
        else:
            out[k] = v
    return out


def maybe_numpy(kw, case, ctx, keep=()):
    """every third generated case hands the constructor its parameters as numpy scalars (the models always get the plain values)"""
    sd = case.get("seed")
    if "literal" in case or not sd or int(sd[-1]) % 3 != 1:
        return kw
    ctx.count("numpy_typed_parameters")
    out = numpyfy(kw)
    for k in keep:
        if k in kw:
            out[k] = kw[k]
    return out


def construct(cls, kw, case, ctx, keep=()):
    """builds cls(**kw), in every third generated case with the parameters as numpy scalars.  A constructor may insist on plain
    Python types: an explicit refusal (ValueError / TypeError while constructing) is counted and the plain values are used - only
    silent misbehaviour with numpy-typed parameters is the checks' business"""
    nk = maybe_numpy(kw, case, ctx, keep)
    if nk is kw:
        return cls(**kw)
    try:
        return cls(**nk)
    except (ValueError, TypeError):
        ctx.count("numpy_typed_parameters_refused_by_constructor")
        return cls(**kw)
