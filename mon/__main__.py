import sys
from .core import main

sys.exit(main(sys.argv[1:]))
