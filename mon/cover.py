"""Reach probe: sys.monitoring LINE events restricted to the files a property is anchored in.

The callback returns DISABLE after the first hit of each location, so the cost is one
call per distinct line per process.  The result ("which executable lines of the anchored
files did the workload reach") goes into the evidence; it never decides a verdict."""
import os
import sys

TOOL = 4  # sys.monitoring tool id (0-5 free for applications; 4 avoids debugger/coverage ids)


class LineCover:
    def __init__(self, files):
        self.files = {os.path.realpath(f) for f in files}
        self.hits = {}
        self.on = False

    def start(self):
        mon = sys.monitoring
        try:
            mon.use_tool_id(TOOL, "verif-cover")
        except ValueError:
            return
        files, hits = self.files, self.hits

        def on_line(code, line):
            fn = code.co_filename
            if fn in files:
                hits.setdefault(fn, set()).add(line)
            return mon.DISABLE

        mon.register_callback(TOOL, mon.events.LINE, on_line)
        mon.set_events(TOOL, mon.events.LINE)
        self.on = True

    def stop(self):
        if self.on:
            sys.monitoring.set_events(TOOL, 0)
            sys.monitoring.free_tool_id(TOOL)
            self.on = False

    def hit_lines(self):
        return {f: sorted(v) for f, v in self.hits.items()}


def executable_lines(path):
    src = open(path).read()
    code = compile(src, path, "exec")
    lines = set()
    stack = [code]
    while stack:
        c = stack.pop()
        if c.co_flags & 0x1:  # function bodies only (module / class level code runs at import)
            for _, _, ln in c.co_lines():
                if ln is not None and ln > 0 and ln != c.co_firstlineno:
                    lines.add(ln)
        for k in c.co_consts:
            if hasattr(k, "co_lines"):
                stack.append(k)
    return lines


def report(repo, anchor_files, hit):
    tot, got, per, missing = 0, 0, {}, {}
    for rel in anchor_files:
        p = os.path.realpath(os.path.join(repo, rel))
        ex = executable_lines(p)
        h = set(hit.get(p, ())) & ex
        tot += len(ex)
        got += len(h)
        per[rel] = "%d/%d" % (len(h), len(ex))
        miss = sorted(ex - h)
        if miss:
            missing[rel] = miss[:80]
    return {"executable": tot, "hit": got, "per_file": per, "not_reached": missing}
