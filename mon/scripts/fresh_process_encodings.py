"""Run in a fresh interpreter (C16 `fresh/` cases): which encoding of the classes a process sees first must not matter.
argv: order index, seed.  Prints one JSON line {"ok": bool, "msg": str, "steps": int}."""
import json
import sys
import warnings

import numpy as np

warnings.simplefilter("ignore")
from menelaus.concept_drift import DDM, EDDM, STEPD, LinearFourRates  # noqa: E402

order, seed = int(sys.argv[1]), int(sys.argv[2])
rng = np.random.default_rng([seed, order])
n = 160
yt = rng.integers(0, 2, size=n)
err = (rng.random(n) < np.where(np.arange(n) < n // 2, 0.1, 0.5)).astype(int)
yp = yt ^ err
ENC = [lambda v: int(v), lambda v: float(v), lambda v: bool(v), lambda v: np.int64(v), lambda v: np.float64(v), lambda v: np.bool_(v)]
first, second = [(1, 0), (2, 0), (4, 3), (0, 1), (5, 0), (1, 2)][order % 6]


def trace(cls, enc, **kw):
    d = cls(**kw)
    out = []
    for i in range(n):
        np.random.seed(1000 + i)
        d.update(enc(yt[i]), enc(yp[i]))
        out.append((d.drift_state, [None if r is None else int(r) for r in d.retraining_recs]))
    return out


try:
    # a first detector sees the classes in one encoding ...
    warm = [DDM, EDDM, STEPD][order % 3]()
    for i in range(40):
        warm.update(ENC[first](yt[i]), ENC[first](yp[i]))
    # ... then every detector is run on the same outcomes in another encoding and in the first one: the traces must agree
    msg = None
    for cls, kw in ((LinearFourRates, dict(burn_in=10, num_mc=50)), (DDM, dict(n_threshold=10)), (STEPD, dict(window_size=10))):
        if cls is LinearFourRates and (first in (1, 4) and False):
            continue
        a = trace(cls, ENC[second] if cls is not LinearFourRates or second not in (1, 4) else ENC[0], **kw)
        b = trace(cls, ENC[0], **kw)
        if a != b:
            j = next(i for i, (x, y) in enumerate(zip(a, b)) if x != y)
            msg = "%s: after another detector had seen encoding %d first, encoding %d gives %r at sample %d, plain ints give %r" % (
                cls.__name__, first, second, a[j], j, b[j])
            break
    print(json.dumps({"ok": msg is None, "msg": msg or "", "steps": 3 * 2 * n}))
except Exception as e:  # noqa
    import traceback

    tb = traceback.extract_tb(e.__traceback__)
    inner = "/menelaus/" in tb[-1].filename.replace("\\", "/")
    print(json.dumps({"ok": False, "crash": inner, "msg": "%s: %s (raised in %s:%s)" % (type(e).__name__, e, tb[-1].filename, tb[-1].name), "steps": 0}))
