"""Structural, cycle-safe deep comparison of two objects' state (used to compare an ensemble member with its
stand-alone twin).  Returns None when equal, else the path of the first difference."""
import types

import numpy as np
import pandas as pd

SKIP_KEYS = {"update", "set_reference", "reset"}  # instance-level wrappers installed by the harness


def deep_equal(a, b, path="obj", seen=None, tol=0.0):
    if seen is None:
        seen = set()
    if a is b:
        return None
    key = (id(a), id(b))
    if key in seen:
        return None
    if isinstance(a, (np.generic,)):
        a = a.item()
    if isinstance(b, (np.generic,)):
        b = b.item()
    if a is None or b is None:
        return None if (a is None and b is None) else path
    if isinstance(a, bool) or isinstance(b, bool) or isinstance(a, (str, bytes)) or isinstance(b, (str, bytes)):
        return None if a == b else path
    if isinstance(a, (int, float)) and isinstance(b, (int, float)):
        if a != a and b != b:
            return None
        if a == b:
            return None
        if tol and abs(a - b) <= tol * max(1.0, abs(a), abs(b)):
            return None
        return path
    if isinstance(a, np.ndarray) or isinstance(b, np.ndarray):
        if not (isinstance(a, np.ndarray) and isinstance(b, np.ndarray)) or a.shape != b.shape:
            return path
        if a.dtype == object or b.dtype == object:
            for i, (x, y) in enumerate(zip(a.ravel().tolist(), b.ravel().tolist())):
                r = deep_equal(x, y, "%s[%d]" % (path, i), seen, tol)
                if r:
                    return r
            return None
        try:
            ok = np.array_equal(a, b, equal_nan=True)
        except TypeError:
            ok = np.array_equal(a, b)
        if not ok and tol and a.dtype.kind == "f":
            ok = bool(np.allclose(a, b, rtol=tol, atol=tol, equal_nan=True))
        return None if ok else path
    if isinstance(a, (pd.DataFrame, pd.Series, pd.Index)) or isinstance(b, (pd.DataFrame, pd.Series, pd.Index)):
        if type(a) is not type(b) or a.shape != b.shape:
            return path
        if isinstance(a, pd.DataFrame) and list(map(str, a.columns)) != list(map(str, b.columns)):
            return path + ".columns"
        return deep_equal(np.asarray(a), np.asarray(b), path + ".values", seen, tol)
    seen.add(key)
    if isinstance(a, dict) and isinstance(b, dict):
        ka = [k for k in a if k not in SKIP_KEYS]
        kb = [k for k in b if k not in SKIP_KEYS]
        if set(map(repr, ka)) != set(map(repr, kb)):
            return path + ".keys"
        bm = {repr(k): k for k in kb}
        for k in ka:
            r = deep_equal(a[k], b[bm[repr(k)]], "%s[%r]" % (path, k), seen, tol)
            if r:
                return r
        return None
    if isinstance(a, (list, tuple)) and isinstance(b, (list, tuple)):
        if len(a) != len(b):
            return path + ".len"
        for i, (x, y) in enumerate(zip(a, b)):
            r = deep_equal(x, y, "%s[%d]" % (path, i), seen, tol)
            if r:
                return r
        return None
    if isinstance(a, (types.FunctionType, types.MethodType, types.BuiltinFunctionType)) or callable(a) and not hasattr(a, "__dict__"):
        return None  # callables (divergence functions, wrappers) are identity-valued
    if type(a).__name__ != type(b).__name__:
        return path + ".type"
    if hasattr(a, "__dict__") and hasattr(b, "__dict__"):
        return deep_equal(vars(a), vars(b), path, seen, tol)
    if hasattr(a, "__slots__"):
        for s in a.__slots__:
            r = deep_equal(getattr(a, s, None), getattr(b, s, None), "%s.%s" % (path, s), seen, tol)
            if r:
                return r
        return None
    try:
        return None if a == b else path
    except Exception:
        return None
