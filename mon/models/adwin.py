"""Executable specification of ADWIN (DESIGN.md 4 C03).

Independent exponential histogram: buckets are *index ranges* over the raw input list (rows of
sizes 2^i, oldest first; when a row holds max_buckets+1 buckets its two oldest merge into the
next row, cascading).  All statistics come from the raw values of the retained window
(math.fsum / numpy.var of the last W inputs), never from incremental sums.  On a scheduled
check the splits at bucket boundaries are scanned oldest -> newest, inadmissible ones skipped,
the documented epsilon-cut evaluated, and on the first exceeding split the oldest bucket is
dropped and the scan restarted."""
import math

import numpy as np

from .base import Cmp


class AdwinModel:
    def __init__(self, delta=0.002, max_buckets=5, new_sample_thresh=32, window_size_thresh=10,
                 subwindow_size_thresh=5, conservative_bound=False):
        self.delta, self.M, self.period = delta, max_buckets, new_sample_thresh
        self.wmin, self.submin, self.cons = window_size_thresh, subwindow_size_thresh, conservative_bound
        self.cmp = Cmp()
        self.x = []
        self.rows = [[]]  # rows[i]: start indices of the buckets of size 2**i, oldest first
        self.total = 0
        self.state = None
        self.recs = [None, None]
        self.maxabs = 0.0
        self.lo = math.inf
        self.hi = -math.inf
        self.dropped = 0
        self.wmax = 1

    def _tol(self, n):
        """bands for a mean / variance over n of the retained values.  The implementation keeps running
        totals that are updated by adding inputs and subtracting bucket totals; their rounding error is
        proportional to the largest total ever held (A * Wmax), independent of the present width."""
        R = (self.hi - self.lo) if self.total else 0.0
        A, Wm = self.maxabs, self.wmax
        n = max(n, 1)
        tm = 1e-9 * R + 1e-12 * A * Wm / n + 1e-15 * A + 1e-300
        tv = 1e-9 * R * R + 1e-12 * Wm * (R * R + 2 * R * A) / n + 1e-26 * A * A + 1e-300
        return tm, tv

    def W(self):
        return sum(len(r) << i for i, r in enumerate(self.rows))

    def window(self):
        return self.x[len(self.x) - self.W():]

    def depth(self):
        return len(self.rows)

    def _buckets_oldest_first(self):
        out = []
        for i in range(len(self.rows) - 1, -1, -1):
            for st in self.rows[i]:
                out.append((st, 1 << i))
        return out

    def _drop_oldest(self):
        top = len(self.rows) - 1
        while not self.rows[top]:
            top -= 1
        self.rows[top] = self.rows[top][1:]
        while len(self.rows) > 1 and not self.rows[-1]:
            self.rows.pop()

    def update(self, v):
        v = float(v)
        self.state = None
        self.recs = [None, None]
        self.dropped = 0
        self.x.append(v)
        self.total += 1
        self.maxabs = max(self.maxabs, abs(v))
        self.lo, self.hi = min(self.lo, v), max(self.hi, v)
        self.rows[0].append(self.total - 1)
        i = 0
        while i < len(self.rows) and len(self.rows[i]) == self.M + 1:
            if i + 1 == len(self.rows):
                self.rows.append([])
            a = self.rows[i][0]
            self.rows[i] = self.rows[i][2:]
            self.rows[i + 1].append(a)
            i += 1
        self.wmax = max(self.wmax, self.W())
        if self.total % self.period == 0 and self.W() > self.wmin:
            again = True
            while again:
                again = False
                win = self.window()
                W = len(win)
                if W == 0:
                    break
                var = float(np.var(win))
                tot = math.fsum(win)
                n0 = 0
                bk = self._buckets_oldest_first()
                for (st, sz) in bk:
                    n0 += sz
                    n1 = W - n0
                    if n1 <= 0:
                        break  # newer part empty: not a split
                    if n0 >= self.submin and n1 >= self.submin:
                        t0 = math.fsum(win[:n0])
                        diff = abs(t0 / n0 - (tot - t0) / n1)
                        nh = 1 / (n0 - self.submin + 1) + 1 / (n1 - self.submin + 1)
                        if not self.cons:
                            d = math.log(2 * math.log(W) / self.delta)
                            eps = math.sqrt(2 * nh * var * d) + (2 / 3) * nh * d
                        else:
                            d = math.log(4 * math.log(W) / self.delta)
                            eps = math.sqrt(0.5 * nh * d)
                        # band: rounding of the implementation's running totals / variance (see _tol)
                        tm, tv = self._tol(min(n0, n1))
                        if not self.cons:
                            eps_hi = math.sqrt(2 * nh * (var + tv) * d) + (2 / 3) * nh * d
                        else:
                            eps_hi = eps
                        band = 2 * tm + (eps_hi - eps) + 1e-9 * max(diff, eps)
                        if self.cmp.gt(diff, eps, band / self.cmp.tau):
                            self.state = "drift"
                            self._drop_oldest()
                            self.dropped += 1
                            again = True
                            break
            if self.state == "drift":
                W = self.W()
                self.recs = [self.total - W, self.total - 1]

    def stats(self):
        win = self.window()
        if not win:
            return 0.0, 0.0
        return math.fsum(win) / len(win), float(np.var(win))

    def tolerances(self):
        return self._tol(self.W())
