"""Independent kdq-tree (DESIGN.md 4 C08/C09): builder, point-wise router, count bookkeeping.

Nodes are plain dicts.  The builder works on index lists over the raw build data and decides
every point's side by an explicit scalar comparison; the router sends one point at a time down
the stored splits.  Nothing is shared with the implementation's recursive array slicing."""
import math

import numpy as np


def build(data, count_ubound, prop_lbound):
    data = np.asarray(data, dtype=float)
    n, d = data.shape
    min_sizes = [int(prop_lbound * (max(data[:, a]) - min(data[:, a]))) for a in range(d)] if n else [0] * d
    leaves = []

    def rec(idx, depth):
        axis = depth % d
        col = [float(data[i, axis]) for i in idx]
        lo, hi = min(col), max(col)
        mid = lo + (hi - lo) / 2
        cell = mid - lo
        nuniq = len({float(v) for i in idx for v in data[i]})
        node = {"count": len(idx), "idx": idx, "depth": depth}
        upper = [i for i, v in zip(idx, col) if v > mid]
        if len(idx) <= count_ubound or nuniq <= count_ubound or cell <= min_sizes[axis] or not upper:
            node["leaf"] = True
            node["leaf_no"] = len(leaves)
            leaves.append(node)
            return node
        lower = [i for i, v in zip(idx, col) if not (v > mid)]
        node.update(leaf=False, axis=axis, mid=mid)
        node["left"] = rec(lower, depth + 1)
        node["right"] = rec(upper, depth + 1)
        return node

    if n == 0 or d == 0:
        return None, []
    root = rec(list(range(n)), 0)
    return root, leaves


def route(root, x):
    """leaf number of the unique leaf cell that contains point x, and the path of nodes visited"""
    node = root
    path = [node]
    while not node["leaf"]:
        node = node["right"] if x[node["axis"]] > node["mid"] else node["left"]
        path.append(node)
    return node["leaf_no"], path


def nodes_preorder(root):
    out = []
    stack = [root]
    while stack:
        nd = stack.pop()
        out.append(nd)
        if not nd["leaf"]:
            stack.append(nd["right"])
            stack.append(nd["left"])
    return out


def fill_counts(root, data):
    """per-node counts of a data set (dict id(node) -> count), by routing each point"""
    cnt = {}
    for nd in nodes_preorder(root):
        cnt[id(nd)] = 0
    for row in np.asarray(data, dtype=float):
        _, path = route(root, row)
        for nd in path:
            cnt[id(nd)] += 1
    return cnt


def distn(counts):
    counts = [float(c) for c in counts]
    tot = math.fsum(counts)
    L = len(counts)
    return [(c + 0.5) / (tot + L / 2) for c in counts]


def kl(p, q):
    return math.fsum(pi * math.log(pi / qi) for pi, qi in zip(p, q) if pi > 0)


def kl_counts(c1, c2):
    return kl(distn(c1), distn(c2))
