"""Executable specifications of CUSUM and Page-Hinkley (DESIGN.md 4 C04).

Both are epoch-local by construction: each keeps only the observations of the current
epoch (plus, for CUSUM, the documented carry-over: the last burn_in observations up to and
including the alarm, from which target and standard deviation are re-estimated)."""
import math

from .base import Cmp


def _mean(xs):
    return math.fsum(xs) / len(xs)


def _pstd(xs):
    m = _mean(xs)
    return math.sqrt(math.fsum((x - m) ** 2 for x in xs) / len(xs))


class ZeroSD(Exception):
    """the documented ValueError: no variance in the estimation window"""


class CUSUMModel:
    def __init__(self, target=None, sd_hat=None, burn_in=30, delta=0.005, threshold=50, direction=None):
        self.target, self.sd = target, sd_hat
        self.burn_in, self.delta, self.thr, self.direction = burn_in, delta, threshold, direction
        self.cmp = Cmp()
        self.total = 0
        self.recent = []  # the last burn_in observations over the whole history (carry-over only)
        self._new_epoch()
        self.raises = False
        self.degenerate = False

    def _estimate(self, xs):
        """mean / population sd of an estimation window.  A window that is constant up to rounding
        makes everything that follows numerically undetermined (the implementation's sd may be 0 or
        1e-10 times the level): flagged degenerate unless it consists of identical small integers (exact in any order)."""
        m, sd = _mean(xs), _pstd(xs)
        scale = max(abs(x) for x in xs)  # relative to the data's own unit: streams recorded in units of 1e-9 are ordinary streams
        if sd > 0 and scale > 0:
            # a level far above the spread: any double-precision two-pass estimate of the deviation carries a relative error of about
            # eps * level / spread, which every later standardised value inherits - the near-tie band follows it
            self.cmp.tau = max(self.cmp.tau, 256 * 2.3e-16 * scale / sd)
        if sd <= 1e-9 * scale or scale == 0:
            exact = all(x == xs[0] for x in xs) and float(xs[0]).is_integer() and abs(xs[0]) < 2 ** 20
            if not exact:
                self.degenerate = True
        return m, sd

    def _new_epoch(self):
        self.epoch = []
        self.sh = 0.0
        self.sl = 0.0
        self.state = None

    def update(self, x):
        self.raises = False
        if self.state == "drift":
            tail = self.recent[-self.burn_in:]
            self.target, self.sd = self._estimate(tail)
            self._new_epoch()
        self.total += 1
        self.epoch.append(x)
        self.recent.append(x)
        if len(self.recent) > max(self.burn_in, 1):
            self.recent = self.recent[-max(self.burn_in, 1):]
        n = len(self.epoch)
        if self.target is None and n == self.burn_in:
            self.target, self.sd = self._estimate(self.epoch)
        if self.sd == 0 and n > self.burn_in:
            self.raises = True
            return
        if self.target is not None:
            if self.sd == 0:
                d = x - self.target
                z = math.nan if d == 0 else math.copysign(math.inf, d)
            else:
                z = (x - self.target) / self.sd
            up = self.sh + z - self.delta
            lo = self.sl - self.delta - z
            self.sh = up if up > 0 else 0.0  # max(0, .) with nan -> 0
            self.sl = lo if lo > 0 else 0.0
        if n > self.burn_in:
            c = self.cmp
            sc = max(self.sh, self.sl, abs(self.thr), 1.0)
            hi = c.gt(self.sh, self.thr, sc) if self.direction in (None, "positive") else False
            lw = c.gt(self.sl, self.thr, sc) if self.direction in (None, "negative") else False
            if hi or lw:
                self.state = "drift"


class PHModel:
    def __init__(self, delta=0.01, threshold=20, burn_in=30, direction="positive"):
        self.delta, self.thr, self.burn_in, self.direction = delta, threshold, burn_in, direction
        self.cmp = Cmp()
        self.total = 0
        self._new_epoch()

    def _new_epoch(self):
        self.epoch = []
        self.terms = []  # x_i - mean_i - delta
        self.state = None
        self.min = 0.0
        self.max = 0.0
        self.row = None
        self.rows = 0

    def update(self, x):
        if self.state == "drift":
            self._new_epoch()
        self.total += 1
        self.epoch.append(x)
        n = len(self.epoch)
        mean = math.fsum(self.epoch) / n
        self.terms.append(x - mean - self.delta)
        s = math.fsum(self.terms)
        self.mag = math.fsum(abs(t) for t in self.terms) + abs(mean) + 1e-300
        theta = self.thr * mean
        # the extremes start at 0 (an empty sum), as documented for the cumulative statistic
        if s < self.min:
            self.min = s
        if s > self.max:
            self.max = s
        diff = (s - self.min) if self.direction == "positive" else (self.max - s)
        # running mean and cumulative sum are incremental in the implementation: exact ties are not decisive
        check = self.cmp.gt(diff, theta, self.mag + abs(theta), zero_decisive=False)
        if check and n > self.burn_in:
            self.state = "drift"
        self.rows = n
        self.row = {"change_scores": x, "page_hinkley_values": s, "page_hinkley_differences": diff,
                    "theta_threshold": theta, "drift_detected": check, "maximum_sum_values": self.max,
                    "minimum_sum_values": self.min, "mean_values": mean}
