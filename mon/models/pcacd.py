"""Executable specification of PCA-CD (DESIGN.md 4 C11).  Own window bookkeeping on the raw samples,
own scaling, per-component aligned histogram supports, own Page-Hinkley; sklearn's PCA / KernelDensity
and scipy's jensenshannon are the trusted base (the same estimators the method is defined with)."""
import math

import numpy as np
from scipy.spatial.distance import jensenshannon
from sklearn.decomposition import PCA
from sklearn.neighbors import KernelDensity

from .base import Cmp


class PH:
    def __init__(self, delta, thr, cmp):
        self.delta, self.thr, self.cmp = delta, thr, cmp
        self.reset()

    def reset(self):
        self.xs = []
        self.terms = []
        self.mn = 0.0
        self.state = None

    def update(self, x):
        if self.state == "drift":
            self.reset()
        self.xs.append(x)
        mean = math.fsum(self.xs) / len(self.xs)
        self.terms.append(x - mean - self.delta)
        s = math.fsum(self.terms)
        self.mn = min(self.mn, s)
        mag = math.fsum(abs(t) for t in self.terms) + abs(self.thr * mean) + 1e-300
        self.margin = (s - self.mn) - self.thr * mean
        self.state = "drift" if self.cmp.gt(s - self.mn, self.thr * mean, mag, zero_decisive=False) else None
        return self.state


def kde_density(v):
    v = np.asarray(v, float)
    bw = 1.06 * np.std(v, ddof=1) * len(v) ** (-1 / 5)
    k = KernelDensity(bandwidth=bw, kernel="epanechnikov").fit(v.reshape(-1, 1))
    return np.exp(k.score_samples(v.reshape(-1, 1)))


def hist_density(v, bins, lo, hi):
    h = np.histogram(v, bins=bins, range=(lo, hi), density=True)[0]
    return h / h.sum()


class PCACDModel:
    def __init__(self, window_size, ev_threshold=0.99, delta=0.1, divergence_metric="kl", sample_period=0.05, online_scaling=True):
        self.w, self.ev, self.metric, self.scaling = window_size, ev_threshold, divergence_metric, online_scaling
        self.step = min(100, round(sample_period * window_size))
        self.bins = int(math.floor(math.sqrt(window_size)))
        self.cmp = Cmp()
        self.ph = PH(delta, round(0.01 * window_size), self.cmp)
        self.total = 0
        self.ssr = 0
        self.state = None
        self.ref, self.test = [], []
        self.building = True
        self.scores = []
        self.npc = None
        self.rebuilds = 0
        self.edge_prone = False

    def _fit(self):
        R, T = np.array(self.ref), np.array(self.test)
        if self.scaling:
            self.mu = R.mean(0)
            self.sd = R.std(0)
            # a feature that is constant over the reference window has no scale (unit scale is used); "constant" is judged up to the
            # rounding of the mean / variance computation, as any standardisation has to
            n_ = len(R)
            eps_ = np.finfo(float).eps
            var_ = self.sd ** 2
            self.sd[var_ <= n_ * eps_ * var_ + (n_ * self.mu * eps_) ** 2] = 1.0
            Rs, Ts = (R - self.mu) / self.sd, (T - self.mu) / self.sd
        else:
            Rs, Ts = R, T
        self.pca = PCA(self.ev).fit(Rs)
        self.npc = len(self.pca.components_)
        self.Rp, self.Tp = self.pca.transform(Rs), self.pca.transform(Ts)
        self.rng = [(min(self.Rp[:, i].min(), self.Tp[:, i].min()), max(self.Rp[:, i].max(), self.Tp[:, i].max())) for i in range(self.npc)]
        if self.metric == "intersection":
            self.dref = [hist_density(self.Rp[:, i], self.bins, *self.rng[i]) for i in range(self.npc)]
        else:
            self.dref = [kde_density(self.Rp[:, i]) for i in range(self.npc)]
        self.rebuilds += 1

    def _near_edge(self):
        """is some projected point of either window within 1e-9 x range of an interior bin edge? (histogram membership then
        depends on the last bits of the projection; the score is compared through adoption only)"""
        for i in range(self.npc):
            lo, hi = self.rng[i]
            if hi <= lo:
                return True
            edges = np.linspace(lo, hi, self.bins + 1)[1:-1]
            for arr in (self.Rp[:, i], self.Tp[:, i]):
                if edges.size and np.min(np.abs(arr[:, None] - edges[None, :])) <= 1e-9 * (hi - lo):
                    return True
        return False

    def update(self, x, adopt_score=None):
        """returns (state, score or None).  adopt_score: the implementation's score, used instead of the model's own when the
        histogram supports are edge-prone (counted by the monitor)."""
        x = np.asarray(x, float).ravel()
        self.total += 1
        self.ssr += 1
        score = None
        self.edge_prone = False
        if self.building:
            if self.state is not None:
                # the former test window becomes the reference; this sample is discarded
                self.ref = list(self.raw_test)
                self.test = []
                self.ssr = 0
                self.state = None
                self.ph.reset()
            elif len(self.ref) < self.w:
                self.ref.append(x)
            elif len(self.test) < self.w:
                self.test.append(x)
            if len(self.test) == self.w:
                self.building = False
                self._fit()
                self.raw_test = list(self.test)
        else:
            self.raw_test = self.raw_test[1:] + [x]
            xs = (x - self.mu) / self.sd if self.scaling else x
            p = self.pca.transform(xs.reshape(1, -1))[0]
            if self.metric == "intersection":
                p = np.array([min(max(p[i], self.rng[i][0]), self.rng[i][1]) for i in range(self.npc)])
            self.Tp = np.vstack([self.Tp[1:], p])
            if (self.total - 1) % self.step == 0 and self.total - 1 != 0:
                if self.metric == "intersection":
                    # one minus an intersection area lies in [0, 1]: rounding must not push it below 0 (a negative score would give
                    # Page-Hinkley a negative threshold)
                    sc = [max(0.0, 1 - np.sum(np.minimum(self.dref[i], hist_density(self.Tp[:, i], self.bins, *self.rng[i])))) for i in range(self.npc)]
                    self.edge_prone = self._near_edge()
                else:
                    sc = [jensenshannon(self.dref[i], kde_density(self.Tp[:, i])) for i in range(self.npc)]
                score = float(max(sc))
                self.own_score = score
                if self.edge_prone and adopt_score is not None:
                    score = float(adopt_score)
                self.scores.append(score)
                if self.ph.update(score) is not None:
                    self.building = True
                    self.state = "drift"
        return self.state, score
