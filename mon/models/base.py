"""Shared machinery of the shadow models: tie-aware comparisons and lock-step adoption.

Numerical policy (DESIGN.md 3.2): a decision `a OP b` is judged on the margin m = a - b.
  |m| >  tau*scale  -> decisive, the implementation must agree;
  m == 0 exactly    -> decisive, the documented comparator applies (this is what catches a
                       flipped comparator; exact ties come from exact small-integer arithmetic);
  0 < |m| <= tau    -> near-tie: if the implementation took the other branch the model adopts it,
                       the step is counted, monitoring continues in sync.
"""
import math

TAU = 1e-9


class Cmp:
    """Comparison recorder.  log[i] = (near_tie, result, margin)."""

    def __init__(self, tau=TAU):
        self.tau = tau
        self.log = []
        self.forced = {}

    def begin(self, forced=None):
        self.log = []
        self.forced = forced or {}

    def _c(self, a, b, op, scale, zero_decisive=True):
        m = a - b
        if scale is None:
            scale = max(abs(a), abs(b), 1e-300)
        if m != m:  # nan: every comparison is False, decisively
            res, near = False, False
        else:
            # zero_decisive=False: the implementation reaches these operands by a route whose rounding
            # differs from the model's (e.g. an incremental mean), so an exact tie in the model is only
            # a near-tie for the implementation
            near = (m != 0 or not zero_decisive) and abs(m) <= self.tau * scale
            res = (m > 0) if op == ">" else (m >= 0) if op == ">=" else (m < 0) if op == "<" else (m <= 0)
        i = len(self.log)
        if i in self.forced:
            res = self.forced[i]
        self.log.append((near, res, m))
        return res

    def gt(self, a, b, scale=None, zero_decisive=True):
        return self._c(a, b, ">", scale, zero_decisive)

    def ge(self, a, b, scale=None, zero_decisive=True):
        return self._c(a, b, ">=", scale, zero_decisive)

    def lt(self, a, b, scale=None, zero_decisive=True):
        return self._c(a, b, "<", scale, zero_decisive)

    def le(self, a, b, scale=None, zero_decisive=True):
        return self._c(a, b, "<=", scale, zero_decisive)

    def near_indices(self):
        return [i for i, e in enumerate(self.log) if e[0]]


class Shadow:
    """Steps a model in lock-step with the implementation.

    factory() builds a fresh model with attribute `cmp` (a Cmp) and method update(*inp).
    decision(model) extracts the decision-valued observation that adoption may reconcile.
    On a decision mismatch with near-tie comparisons in this step the history is replayed
    from the start on a fresh model with the comparison outcomes forced (rare, so the cost
    of replaying is irrelevant) until the implementation's branch is reproduced."""

    def __init__(self, factory, decision):
        self.factory = factory
        self.decision = decision
        self.model = factory()
        self.inputs = []
        self.forced = {}
        self.adopted = 0

    def _replay(self, upto):
        m = self.factory()
        for t in range(upto):
            m.cmp.begin(self.forced.get(t))
            m.update(*self.inputs[t])
        return m

    def step(self, inp, impl_decision):
        """returns (agrees, near_tie_adopted)"""
        t = len(self.inputs)
        self.inputs.append(inp)
        m = self.model
        m.cmp.begin()
        m.update(*inp)
        if self.decision(m) == impl_decision:
            return True, False
        near = m.cmp.near_indices()
        if not near:
            return False, False
        # breadth-first search over flips of near-tie comparisons (at most 3 flips, 16 attempts)
        def attempt(forced):
            m2 = self._replay(t)
            m2.cmp.begin(forced)
            m2.update(*inp)
            return m2

        queue = [({}, m)]
        tried = 0
        while queue and tried < 16:
            forced, run = queue.pop(0)
            last = max(forced) if forced else -1
            for i in run.cmp.near_indices():
                if i <= last:
                    continue
                f2 = dict(forced)
                f2[i] = not run.cmp.log[i][1]
                m2 = attempt(f2)
                tried += 1
                if self.decision(m2) == impl_decision:
                    self.model = m2
                    self.forced[t] = f2
                    self.adopted += 1
                    return True, True
                if len(f2) < 3:
                    queue.append((f2, m2))
        return False, False


def close(a, b, rtol=1e-9, atol=1e-12, scale=None):
    """value comparison; nan == nan, inf == inf of the same sign"""
    if a is None or b is None:
        return a is None and b is None
    a, b = float(a), float(b)
    if a != a or b != b:
        return a != a and b != b
    if math.isinf(a) or math.isinf(b):
        return a == b
    s = max(abs(a), abs(b)) if scale is None else scale
    return abs(a - b) <= rtol * s + atol
