"""Executable specifications of DDM, EDDM and STEPD (DESIGN.md 3.3 / 4 C05).

Written from the class docstrings and the cited methods; input is the error indicator
(1 = wrong prediction).  Bookkeeping (epochs, windows, indices, recommendations) is the
models' own: STEPD keeps the whole epoch history and recomputes the three accuracies from
it, EDDM keeps the list of error positions, DDM and EDDM recompute nothing from the
implementation.  Arithmetic follows the documented recurrences in the documented order so
that exact ties (which small-integer workloads produce in abundance) are decisive."""
import math

from .base import Cmp

SQ2 = math.sqrt(2.0)


def _recs_update(m):
    """[first warning of the epoch, drift index]; both the drift index without a warning"""
    if m.state == "warning" and m.recs[0] is None:
        m.recs[0] = m.total - 1
    if m.state == "drift":
        m.recs[1] = m.total - 1
        if m.recs[0] is None:
            m.recs[0] = m.total - 1


class DDMModel:
    def __init__(self, n_threshold=30, warning_scale=2, drift_scale=3):
        self.nt, self.ws, self.ds = n_threshold, warning_scale, drift_scale
        self.cmp = Cmp()
        self.total = 0
        self._new_epoch()

    def _new_epoch(self):
        self.n = 0
        self.p = 0.0
        self.s = 0.0
        self.pmin = math.inf
        self.smin = math.inf
        self.state = None
        self.recs = [None, None]

    def update(self, err):
        if isinstance(err, tuple):  # ("reset", err): the user called reset() before this sample
            self._new_epoch()
            err = err[1]
        if self.state == "drift":
            self._new_epoch()
        self.n += 1
        self.total += 1
        prev = self.p
        self.p = self.p + (err - self.p) / self.n
        self.s = math.sqrt((self.s + (err - self.p) * (err - prev)) / self.n)
        if self.n < self.nt:
            return
        c = self.cmp
        if c.le(self.p + self.s, self.pmin + self.smin):
            self.pmin, self.smin = self.p, self.s
        # repository-pinned: thresholds are scaled by the current deviation (3.3)
        if c.ge(self.p + self.s, self.pmin + self.ds * self.s, 1.0):
            self.state = "drift"
        elif c.ge(self.p + self.s, self.pmin + self.ws * self.s, 1.0):
            self.state = "warning"
        else:
            self.state = None
        _recs_update(self)


class EDDMModel:
    def __init__(self, n_threshold=30, warning_thresh=0.95, drift_thresh=0.9):
        self.nt, self.wt, self.dt = n_threshold, warning_thresh, drift_thresh
        self.cmp = Cmp()
        self.total = 0
        self._new_epoch()

    def _new_epoch(self):
        self.n = 0
        self.errors = []  # epoch-local 0-based positions of the errors
        self.mean = 0.0
        self.sd = 0.0
        self.maxnum = 0.0
        self.state = None
        self.recs = [None, None]
        self.stat = None

    def update(self, err):
        if isinstance(err, tuple):
            self._new_epoch()
            err = err[1]
        if self.state == "drift":
            self._new_epoch()
        self.n += 1
        self.total += 1
        if not err:
            return  # state (and recs) unchanged on a correct prediction
        pos = self.n - 1
        last = self.errors[-1] if self.errors else 0
        self.errors.append(pos)
        k = len(self.errors)
        d = pos - last
        prev = self.mean
        self.mean = self.mean + (d - self.mean) / k
        self.sd = math.sqrt((self.sd + (d - self.mean) * (d - prev)) / k)
        if k < self.nt:
            return
        num = self.mean + 2 * self.sd
        c = self.cmp
        if c.lt(self.maxnum, num):
            self.maxnum = num
        self.stat = num / self.maxnum if self.maxnum != 0 else math.nan
        if c.le(self.stat, self.dt, 1.0):
            self.state = "drift"
        elif c.le(self.stat, self.wt, 1.0):
            self.state = "warning"
        else:
            self.state = None
        _recs_update(self)


def _norm_sf(t):
    if t != t:
        return math.nan
    return 0.5 * math.erfc(t / SQ2)


class STEPDModel:
    def __init__(self, window_size=30, alpha_warning=0.05, alpha_drift=0.003):
        self.w, self.aw, self.ad = window_size, alpha_warning, alpha_drift
        self.cmp = Cmp()
        self.total = 0
        self._new_epoch()

    def _new_epoch(self):
        self.hist = []  # 1 = correct
        self.state = None
        self.recs = [None, None]
        self.recent = self.past = self.overall = None

    def update(self, err):
        if isinstance(err, tuple):
            self._new_epoch()
            err = err[1]
        if self.state == "drift":
            self._new_epoch()
        self.total += 1
        self.hist.append(1 - err)
        n = len(self.hist)
        w = self.w
        rec = self.hist[-w:]
        past = self.hist[:-w] if n > w else []
        self.recent = sum(rec) / len(rec)
        self.past = (sum(past) / len(past)) if past else 0
        self.overall = sum(self.hist) / n
        if n < 2 * w:
            return
        h = (1 / (n - w)) + (1 / w)
        num = abs(self.past - self.recent) - 0.5 * h
        den = math.sqrt(self.overall * (1 - self.overall) * h)
        if den == 0:
            t = math.nan if num == 0 else math.copysign(math.inf, num)
        else:
            t = num / den
        p = _norm_sf(t)
        self.t, self.pval = t, p
        c = self.cmp
        dec = c.gt(self.past, self.recent, 1.0)
        # p is a tail probability computed by another route than the implementation's
        # (erfc vs 1 - cdf): absolute band on the probability scale
        if dec and c.lt(p, self.ad, max(self.ad, 1e-3)):
            self.state = "drift"
        elif dec and c.lt(p, self.aw, max(self.aw, 1e-3)):
            self.state = "warning"
        else:
            self.state = None
            self.recs = [None, None]
        if self.state is not None:
            # start of the current uninterrupted non-None run, and the current index
            if self.recs[0] is None:
                self.recs = [self.total - 1, self.total - 1]
            else:
                self.recs[1] = self.total - 1
