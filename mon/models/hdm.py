"""Executable specification of the histogram density method (HDDDM / CDBD), DESIGN.md 4 C07.

State of the model: the reference array, the epoch's previous distance and the list of the epoch's
epsilons.  Everything is epoch-local (divisor t - lambda - 1 = batches of the epoch - 1).  The
bootstrap estimate used at the second batch of an epoch (detect_batch 1 and 2) is an *input* of the
specification (read from the implementation, validated separately from the RNG log)."""
import math

import numpy as np
import scipy.stats

from .base import Cmp


def hist(col, bins, lo, hi):
    return np.histogram(col, bins=bins, range=(lo, hi))[0]


def hellinger(r, t):
    r = np.asarray(r, float)
    t = np.asarray(t, float)
    return float(np.sqrt(np.sum((np.sqrt(t / t.sum()) - np.sqrt(r / r.sum())) ** 2)))


def js(r, t):
    p = np.asarray(r, float) / np.sum(r)
    q = np.asarray(t, float) / np.sum(t)
    m = (p + q) / 2

    def kl(a, b):
        mask = a > 0
        return float(np.sum(a[mask] * np.log(a[mask] / b[mask])))

    return math.sqrt(max(0.0, (kl(p, m) + kl(q, m)) / 2))


NOADOPT = object()


class HDMModel:
    def __init__(self, divergence, detect_batch, statistic, significance):
        self.div = {"H": hellinger, "KL": js}.get(divergence, divergence) if isinstance(divergence, str) else divergence
        self.db, self.stat, self.sig = detect_batch, statistic, significance
        self.total = 0
        self.bsr = 0
        self.state = None
        self.cmp = Cmp()
        self.ref = None
        self.distances, self.epsilon_values, self.thresholds = {}, {}, {}

    def next_needs_boot(self):
        """does the next update decide with the bootstrap estimate (second batch of an epoch, detect_batch 1 or 2)?"""
        if self.state == "drift":
            nxt = 2 if self.db == 1 else 1
        else:
            nxt = self.bsr + 1
        return nxt == 2 and self.db != 3

    def set_reference(self, X):
        self.ref = np.array(X, float)
        return self._start_epoch()

    def _start_epoch(self):
        self.bsr = 0
        self.state = None
        self.eps = []
        self.prev = None
        self.prev_fd = None
        if self.db == 1:
            h = int(len(self.ref) / 2)
            proxy = self.ref[h:]
            self.ref = self.ref[:h]
            return self._process(proxy, None)
        return None

    def update(self, X, boot_eps=None, adopt=NOADOPT):
        """adopt: NOADOPT, or the implementation's state (None / "drift"); it is followed when the model's own decision is a near-tie"""
        if self.state == "drift":
            self._start_epoch()
        return self._process(np.array(X, float), boot_eps, adopt)

    def feature_distances(self, ref, X):
        bins = int(math.floor(math.sqrt(len(ref))))
        fd = []
        for f in range(X.shape[1]):
            lo = min(ref[:, f].min(), X[:, f].min())
            hi = max(ref[:, f].max(), X[:, f].max())
            fd.append(float(self.div(hist(ref[:, f], bins, lo, hi), hist(X[:, f], bins, lo, hi))))
        return fd, bins

    def _process(self, X, boot_eps, adopt=NOADOPT):
        self.total += 1
        self.bsr += 1
        nref = len(self.ref)
        d = X.shape[1]
        fd, bins = self.feature_distances(self.ref, X)
        dist = sum(fd) / d
        self.distances[self.total] = dist
        out = {"ref_before": self.ref, "dist": dist, "fd": fd, "eps": None, "beta": None, "bins": bins, "nref_before": nref,
               "feps": None if self.prev_fd is None else [a - b for a, b in zip(fd, self.prev_fd)], "needs_boot": False}
        drift = False
        if self.bsr >= 2:
            e = abs(dist - self.prev)
            out["eps"] = e
            self.epsilon_values[self.total] = e
            can = (self.db != 3) or self.bsr >= 3
            if can:
                if self.bsr == 2 and self.db != 3:
                    out["needs_boot"] = True
                    prev = [boot_eps]
                    dsc = 1
                else:
                    prev = list(self.eps)
                    dsc = self.bsr - 1
                mean = sum(prev) / dsc
                sd = math.sqrt(sum((p - mean) ** 2 for p in prev) / dsc)
                if self.stat == "tstat":
                    t = float(scipy.stats.t.ppf(1 - self.sig / 2, nref + len(X) - 2))
                    beta = mean + t * sd / math.sqrt(dsc)
                else:
                    beta = mean + self.sig * sd
                out["beta"] = beta
                self.thresholds[self.total] = beta
                out["margin"] = e - beta
                self.cmp.begin()
                drift = self.cmp.gt(e, beta, max(abs(e), abs(beta), 1e-3), zero_decisive=False)
                out["near"] = bool(self.cmp.near_indices())
                if out["near"] and adopt is not NOADOPT and (adopt == "drift") != drift:
                    drift = not drift
                    out["adopted"] = True
            self.eps.append(e)
        if drift:
            self.state = "drift"
            self.ref = X
        else:
            self.state = None
            self.prev = dist
            self.prev_fd = fd
            self.ref = np.vstack([self.ref, X])
        out["state"] = self.state
        out["nref"] = len(self.ref)
        out["eps_list"] = list(self.eps)
        return out


def bootstrap_epsilon(div, reference, draws, bins, mins, maxes, subsets):
    """the documented initial estimate recomputed from the logged row indices"""
    boots = []
    for idx in draws:
        sub = reference[np.asarray(idx)]
        boots.append([hist(sub[:, f], bins, mins[f], maxes[f]) for f in range(reference.shape[1])])
    dists = []
    for i in range(len(boots)):
        for j in range(i + 1, len(boots)):
            dists.append(sum(float(div(boots[i][f], boots[j][f])) for f in range(reference.shape[1])))
    eps = 0.0
    for i in range(len(dists)):
        for j in range(i + 1, len(dists)):
            eps += abs(dists[i] - dists[j])
    return eps / subsets
