"""Case scheduler, sharding, three-valued verdicts, evidence / replay writers, known findings.

A property module (mon/props/cNN.py) provides

    ID, LEVEL, RULE, ASSUMPTIONS
    cases(tier, seed)        -> list of JSON-able case dicts, each with a unique "id"
    run_case(case, ctx)      -> drives the real code, reports through ctx
    targets(tier)            -> {counter name: minimum}   (reach; unmet => inconclusive)
    ANCHOR_FILES (optional)  -> repo-relative files whose executed lines are recorded
    finalize(merged, tier)   (optional) -> extra coverage keys computed from merged counters

The parent process shards the case list over subprocesses (never multiprocessing.Pool),
merges their JSONL records, classifies violations against known_findings.txt, writes
evidence/<ID>.json and decides the exit code:

    0  held on everything observed (known findings are printed as KNOWN-FINDING lines)
    1  VIOLATION property=<id> replay=<path>
    2  INCONCLUSIVE (reach target unmet, harness error, watchdog)
"""
import collections
import hashlib
import importlib
import json
import os
import signal
import subprocess
import sys
import time
import traceback

ROOT = os.path.dirname(os.path.dirname(os.path.abspath(__file__)))
REPO = os.path.realpath(os.environ.get("VERIF_REPO", "/repo"))
WORK = os.environ.get("VERIF_WORK", os.path.join(ROOT, ".work"))
EVID = os.environ.get("VERIF_EVIDENCE_DIR", os.path.join(ROOT, "evidence"))
REPLAYS = os.environ.get("VERIF_REPLAY_DIR", os.path.join(ROOT, "replays"))
KNOWN = os.path.join(ROOT, "known_findings.txt")
REGRESS = os.path.join(ROOT, "regress")
NPROC = int(os.environ.get("VERIF_JOBS", "16"))

ALL_IDS = ["C%02d" % i for i in range(1, 21)]


def load_prop(pid):
    return importlib.import_module("mon.props.%s" % pid.lower())


def jdefault(o):
    import numpy as np

    if isinstance(o, np.generic):
        return o.item()
    if isinstance(o, np.ndarray):
        return o.tolist()
    if isinstance(o, (set, frozenset)):
        return sorted(o, key=repr)
    if isinstance(o, tuple):
        return list(o)
    return repr(o)


def jdump(o, **kw):
    return json.dumps(o, default=jdefault, **kw)


def digest(o):
    return hashlib.sha1(jdump(o, sort_keys=True).encode()).hexdigest()[:16]


class Violation(Exception):
    """Raised by monitors that want to abort the case at the first violation."""


class Ctx:
    """Per-case collector handed to run_case."""

    MAX_VIOL_PER_CASE = 5

    def __init__(self, case, verbose=False):
        self.case = case
        self.verbose = verbose
        self.counters = collections.Counter()
        self.violations = []
        self.nontrivial = False
        self.digest = None
        self.sample = None
        self.notes = []
        self.inconclusive = None

    def count(self, key, n=1):
        self.counters[key] += n

    def cmax(self, key, v):
        k = "max:" + key
        if v > self.counters.get(k, 0):
            self.counters[k] = v

    def trace(self, *a):
        if self.verbose:
            print("   ", *a, flush=True)

    def violation(self, sig, msg, **witness):
        """sig: mechanism signature (structured, never seeds or values)."""
        if len(self.violations) < self.MAX_VIOL_PER_CASE:
            self.violations.append({"sig": sig, "msg": msg, "witness": witness})
        self.count("violations_raw")
        if self.verbose:
            print("  !! VIOLATION", sig, msg, flush=True)

    def mark_inconclusive(self, reason):
        self.inconclusive = reason

    def record(self):
        return {
            "case": self.case,
            "counters": dict(self.counters),
            "violations": self.violations,
            "nontrivial": bool(self.nontrivial),
            "digest": self.digest or digest(self.case),
            "sample": self.sample,
            "inconclusive": self.inconclusive,
        }


def in_repo_tb(tb):
    """innermost frame of the traceback that lies in the menelaus tree, or None"""
    hit = None
    for fs in traceback.extract_tb(tb):
        fn = os.path.realpath(fs.filename)
        if fn.startswith(os.path.join(REPO, "menelaus")):
            hit = (os.path.relpath(fn, REPO), fs.name)
    return hit


class CaseTimeout(Exception):
    pass


def _alarm(signum, frame):
    raise CaseTimeout()


def run_one(prop, case, verbose=False, limit=300):
    ctx = Ctx(case, verbose)
    signal.signal(signal.SIGALRM, _alarm)
    signal.alarm(int(limit))
    try:
        prop.run_case(case, ctx)
    except Violation:
        pass
    except CaseTimeout:
        ctx.mark_inconclusive("case watchdog (%ds) fired" % limit)
    except Exception as e:  # noqa
        hit = in_repo_tb(e.__traceback__)
        tbtxt = traceback.format_exc()
        if hit is not None:
            ctx.violation(
                "crash/%s/%s:%s" % (type(e).__name__, hit[0], hit[1]),
                "unexpected %s from the code under test: %s" % (type(e).__name__, e),
                traceback=tbtxt[-3000:],
            )
        else:
            ctx.mark_inconclusive("harness error: %s: %s\n%s" % (type(e).__name__, e, tbtxt[-3000:]))
    finally:
        signal.alarm(0)
    return ctx


# --------------------------------------------------------------------------------------
# shard worker


def shard_main(pid, casefile, outfile):
    import faulthandler

    faulthandler.enable()
    prop = load_prop(pid)
    check_repo_import()
    cover = None
    if getattr(prop, "ANCHOR_FILES", None) and os.environ.get("VERIF_COVER", "1") == "1":
        from . import cover as _cover

        cover = _cover.LineCover([os.path.join(REPO, f) for f in prop.ANCHOR_FILES])
        cover.start()
    from . import fpmon

    fpmon.install()
    with open(casefile) as f:
        cases = json.load(f)
    limit = int(os.environ.get("VERIF_CASE_TIMEOUT", "600"))
    with open(outfile, "w") as out:
        for case in cases:
            ctx = run_one(prop, case, limit=limit)
            out.write(jdump(ctx.record()) + "\n")
            out.flush()
        meta = {"_meta": True, "fp_events": fpmon.summary()}
        if cover is not None:
            cover.stop()
            meta["lines"] = cover.hit_lines()
        out.write(jdump(meta) + "\n")


def check_repo_import():
    import menelaus

    f = os.path.realpath(menelaus.__file__)
    if not f.startswith(REPO + os.sep):
        raise RuntimeError("menelaus imported from %s, expected under %s" % (f, REPO))


# --------------------------------------------------------------------------------------
# known findings


def load_known(pid):
    """known_findings.txt lines:
        open: property=<id> key=<signature> :: <what fails>
        fixed: property=<id> <commit> key=<signature> :: <what failed>
    Only 'open' entries suppress, and only their exact signature."""
    open_, fixed = {}, {}
    if not os.path.exists(KNOWN):
        return open_, fixed
    for line in open(KNOWN):
        line = line.strip()
        if not line or line.startswith("#"):
            continue
        head, _, what = line.partition("::")
        toks = head.split()
        kind = toks[0].rstrip(":")
        kv = dict(t.split("=", 1) for t in toks[1:] if "=" in t)
        if kv.get("property") != pid:
            continue
        if kind == "open":
            open_[kv["key"]] = what.strip()
        elif kind == "fixed":
            fixed[kv["key"]] = what.strip()
    return open_, fixed


def regression_cases(pid):
    d = os.path.join(REGRESS, pid)
    out = []
    if os.path.isdir(d):
        for fn in sorted(os.listdir(d)):
            if fn.endswith(".json"):
                with open(os.path.join(d, fn)) as f:
                    c = json.load(f)
                c = c.get("case", c)
                c = dict(c)
                c["id"] = "regress/" + fn[:-5]
                c["regress"] = True
                out.append(c)
    return out


# --------------------------------------------------------------------------------------
# parent


def run_property(pid, tier, seed):
    t0 = time.time()
    prop = load_prop(pid)
    check_repo_import()
    work = os.path.join(WORK, pid)
    subprocess.run(["rm", "-rf", work])
    os.makedirs(work, exist_ok=True)
    os.makedirs(EVID, exist_ok=True)

    cases = regression_cases(pid) + list(prop.cases(tier, seed))
    flt = os.environ.get("VERIF_CASE_FILTER")
    if flt:  # development aid only: the reach targets are then usually unmet and the run ends inconclusive
        import re as _re
        cases = [c for c in cases if _re.search(flt, c["id"])]
        print("NOTE: VERIF_CASE_FILTER=%r keeps %d cases - not a complete run" % (flt, len(cases)))
    ids = [c["id"] for c in cases]
    assert len(set(ids)) == len(ids), "duplicate case ids"
    nshard = max(1, min(NPROC, len(cases)))
    # cost-aware round robin: expensive cases first so shards balance
    order = sorted(range(len(cases)), key=lambda i: -float(cases[i].get("cost", 1)))
    shards = [[] for _ in range(nshard)]
    loads = [0.0] * nshard
    for i in order:
        k = loads.index(min(loads))
        shards[k].append(cases[i])
        loads[k] += float(cases[i].get("cost", 1))
    procs = []
    budget = int(os.environ.get("VERIF_SHARD_TIMEOUT", "900" if tier == "quick" else "7200"))
    for k, sh in enumerate(shards):
        cf = os.path.join(work, "cases_%d.json" % k)
        of = os.path.join(work, "out_%d.jsonl" % k)
        with open(cf, "w") as f:
            f.write(jdump(sh))
        lf = open(os.path.join(work, "log_%d.txt" % k), "w")
        p = subprocess.Popen(
            [sys.executable, "-m", "mon", "_shard", pid, cf, of],
            stdout=lf, stderr=subprocess.STDOUT, cwd=ROOT,
        )
        procs.append((k, p, of, lf, len(sh)))
    shard_problems = []
    deadline = t0 + budget
    for k, p, of, lf, n in procs:
        try:
            rc = p.wait(timeout=max(1, deadline - time.time()))
        except subprocess.TimeoutExpired:
            p.kill()
            p.wait()
            rc = "timeout"
        lf.close()
        if rc != 0:
            tail = open(os.path.join(work, "log_%d.txt" % k)).read()[-1500:]
            shard_problems.append("shard %d rc=%s: %s" % (k, rc, tail))

    records, metas = [], []
    for k, p, of, lf, n in procs:
        if os.path.exists(of):
            for line in open(of):
                line = line.strip()
                if line:
                    try:
                        r = json.loads(line)
                    except Exception:
                        continue
                    (metas if r.get("_meta") else records).append(r)
    done = {r["case"]["id"] for r in records}
    missing = [i for i in ids if i not in done]

    counters = collections.Counter()
    for r in records:
        for key, v in r["counters"].items():
            if key.startswith("max:"):
                counters[key] = max(counters.get(key, 0), v)
            else:
                counters[key] += v
    nontrivial = {r["digest"] for r in records if r["nontrivial"]}
    inconcl = [(r["case"]["id"], r["inconclusive"]) for r in records if r.get("inconclusive")]

    open_, fixed = load_known(pid)
    viol_new, viol_known = [], collections.OrderedDict()
    for r in records:
        for v in r["violations"]:
            if v["sig"] in open_:
                viol_known.setdefault(v["sig"], []).append((r, v))
            else:
                viol_new.append((r, v))

    # replays
    rdir = os.path.join(REPLAYS, pid)
    subprocess.run(["rm", "-rf", rdir])
    replay_paths = []
    if viol_new or inconcl:
        os.makedirs(rdir, exist_ok=True)
    seen_sig = collections.Counter()
    for r, v in viol_new:
        seen_sig[v["sig"]] += 1
        if seen_sig[v["sig"]] > 3:
            continue
        name = "%s__%s.json" % (str(r["case"]["id"]).replace("/", "_"), digest(v)[:6])
        path = os.path.join(rdir, name)
        with open(path, "w") as f:
            f.write(jdump({"property": pid, "case": r["case"], "violation": v}, indent=1))
        replay_paths.append((v, path))
    for cid, why in inconcl[:5]:
        r = next(x for x in records if x["case"]["id"] == cid)
        path = os.path.join(rdir, "inconclusive_%s.json" % str(cid).replace("/", "_"))
        with open(path, "w") as f:
            f.write(jdump({"property": pid, "case": r["case"], "inconclusive": why}, indent=1))

    # reach
    unmet = []
    tg = prop.targets(tier) if hasattr(prop, "targets") else {}
    for key, need in tg.items():
        have = counters.get(key, 0)
        if have < need:
            unmet.append("%s=%d<%d" % (key, have, need))
    problems = []
    if shard_problems:
        problems += shard_problems
    if missing:
        problems.append("%d cases produced no record (first: %s)" % (len(missing), missing[:3]))
    if inconcl:
        problems.append("%d inconclusive cases (first: %s: %s)" % (len(inconcl), inconcl[0][0], str(inconcl[0][1])[:800]))
    if unmet:
        problems.append("reach targets unmet: " + ", ".join(unmet))

    # line coverage of the anchored files
    linecov = None
    if metas and any("lines" in m for m in metas):
        from . import cover as _cover

        hit = collections.defaultdict(set)
        for m in metas:
            for f, ls in m.get("lines", {}).items():
                hit[f].update(ls)
        linecov = _cover.report(REPO, prop.ANCHOR_FILES, hit)
    fp = collections.Counter()
    for m in metas:
        for k_, v_ in m.get("fp_events", {}).items():
            fp[k_] += v_

    samples = [r["sample"] for r in records if r.get("sample") is not None and r["nontrivial"]][:4]
    if not samples:
        samples = [r["case"] for r in records[:3]]
    coverage = {
        "evaluations": len(records),
        "distinct_nontrivial": len(nontrivial),
        "rule": prop.RULE,
        "samples": samples,
        "counters": {k: counters[k] for k in sorted(counters)},
        "reach_targets": tg,
        "known_findings_printed": sorted(viol_known),
        "regression_cases_replayed": sum(1 for c in cases if c.get("regress")),
        "fp_events_in_menelaus": dict(fp),
    }
    if linecov is not None:
        coverage["anchored_lines"] = linecov
    if hasattr(prop, "finalize"):
        coverage.update(prop.finalize(counters, tier, records) or {})
    status = "violated" if viol_new else ("inconclusive" if problems else "held")
    coverage["verdict"] = status
    if problems:
        coverage["inconclusive_reasons"] = [p[:1000] for p in problems]
    ev = {
        "property_id": pid,
        "tier": tier,
        "seed": int(seed),
        "level": prop.LEVEL,
        "coverage": coverage,
        "assumptions": list(prop.ASSUMPTIONS),
        "wall_s": round(time.time() - t0, 2),
        "violations": len(viol_new),
    }
    validate_evidence(ev)
    with open(os.path.join(EVID, pid + ".json"), "w") as f:
        f.write(jdump(ev, indent=1) + "\n")

    # report
    print("%s %s seed=%s repo=%s: %d cases, %d distinct non-trivial, %.1fs" % (
        pid, tier, seed, REPO, len(records), len(nontrivial), time.time() - t0))
    keys = [k for k in sorted(counters) if not k.startswith("_")]
    print("  observed: " + ", ".join("%s=%d" % (k, counters[k]) for k in keys))
    if linecov is not None:
        print("  anchored lines reached: %d/%d" % (linecov["hit"], linecov["executable"]))
    for sig, lst in viol_known.items():
        print("KNOWN-FINDING: property=%s %s: %s (%d occurrences this run)" % (pid, sig, open_[sig], len(lst)))
    if viol_new:
        bysig = collections.Counter(v["sig"] for _, v in viol_new)
        for sig, n in bysig.most_common():
            print("  violation signature %s: %d x" % (sig, n))
        shown = set()
        for v, path in replay_paths:
            if v["sig"] in shown:
                continue
            shown.add(v["sig"])
            print("  %s: %s" % (v["sig"], v["msg"][:600]))
            print("VIOLATION property=%s replay=%s" % (pid, path))
        return 1
    if problems:
        for p in problems:
            print("INCONCLUSIVE property=%s reason=%s" % (pid, p[:1500]))
        return 2
    print("HELD property=%s on everything observed" % pid)
    return 0


_schema = None


def validate_evidence(ev):
    global _schema
    try:
        import jsonschema
    except Exception:
        return
    sp = "/root/.vp/EVIDENCE.schema.json"
    local = os.path.join(ROOT, "mon", "EVIDENCE.schema.json")
    if _schema is None:
        for p in (local, sp):
            if os.path.exists(p):
                _schema = json.load(open(p))
                break
    if _schema is not None:
        ev2 = json.loads(jdump(ev))
        try:
            jsonschema.validate(ev2, _schema)
        except jsonschema.ValidationError as e:
            # evidence that cannot validate (e.g. < 2 non-trivial cases) is still written;
            # the run is then reported inconclusive by the caller through coverage.verdict
            print("  note: evidence does not validate against the schema: %s" % e.message[:300])


def replay(pid, path):
    prop = load_prop(pid)
    check_repo_import()
    with open(path) as f:
        rec = json.load(f)
    case = rec.get("case", rec)
    case.setdefault("id", "replay")
    print("replaying %s case %s against %s" % (pid, case.get("id"), REPO))
    ctx = run_one(prop, case, verbose=True)
    print("counters:", dict(ctx.counters))
    if ctx.inconclusive:
        print("INCONCLUSIVE property=%s reason=%s" % (pid, ctx.inconclusive))
        return 2
    open_, _ = load_known(pid)
    new = [v for v in ctx.violations if v["sig"] not in open_]
    for v in ctx.violations:
        tag = "KNOWN-FINDING:" if v["sig"] in open_ else "violation"
        print("%s property=%s %s: %s" % (tag, pid, v["sig"], v["msg"][:1500]))
    if new:
        print("VIOLATION property=%s replay=%s" % (pid, path))
        return 1
    print("HELD on this case")
    return 0


def main(argv):
    if not argv:
        print(__doc__)
        return 3
    if argv[0] == "_shard":
        shard_main(argv[1], argv[2], argv[3])
        return 0
    pid = argv[0]
    seed = int(os.environ.get("VERIF_SEED", "0") or 0)
    if len(argv) >= 3 and argv[1] == "--replay":
        return replay(pid, argv[2])
    tier = argv[1] if len(argv) > 1 else os.environ.get("VERIF_TIER", "quick")
    if tier not in ("quick", "thorough"):
        tier = os.environ.get("VERIF_TIER", "quick")
    if pid == "all":
        rc = 0
        for p in ALL_IDS:
            try:
                load_prop(p)
            except ImportError:
                continue
            r = subprocess.call([sys.executable, "-m", "mon", p, tier])
            rc = max(rc, r)
        return rc
    return run_property(pid, tier, seed)
