"""The detector zoo: uniform construction, parameter draws, workload generation, driving and observation of all
15 public detectors, for the cross-cutting properties (C01, C02, C12, C14-C18)."""
import numpy as np
import pandas as pd

from menelaus.change_detection import ADWIN, CUSUM, PageHinkley
from menelaus.concept_drift import DDM, EDDM, STEPD, ADWINAccuracy, LinearFourRates
from menelaus.data_drift import CDBD, HDDDM, NNDVI, PCACD, KdqTreeBatch, KdqTreeStreaming

from . import gen

STREAM_X1 = ("ADWIN", "CUSUM", "PageHinkley")
STREAM_Y = ("ADWINAccuracy", "DDM", "EDDM", "STEPD", "LinearFourRates")
STREAM_XD = ("KdqTreeStreaming", "PCACD")
BATCH = ("KdqTreeBatch", "HDDDM", "CDBD", "NNDVI")
ALL = STREAM_X1 + STREAM_Y + STREAM_XD + BATCH  # MD3 is driven through its own protocol driver (props/c19.py)

CLS = {"ADWIN": ADWIN, "CUSUM": CUSUM, "PageHinkley": PageHinkley, "ADWINAccuracy": ADWINAccuracy, "DDM": DDM, "EDDM": EDDM, "STEPD": STEPD,
       "LinearFourRates": LinearFourRates, "KdqTreeStreaming": KdqTreeStreaming, "PCACD": PCACD, "KdqTreeBatch": KdqTreeBatch, "HDDDM": HDDDM,
       "CDBD": CDBD, "NNDVI": NNDVI}


def kind(name):
    if name in STREAM_X1:
        return "x1"
    if name in STREAM_Y:
        return "y"
    if name in STREAM_XD:
        return "xd"
    return "batch"


def draw_params(name, rng, hostile=True):
    """documented parameters drawn from small hostile sets as well as moderate values"""
    c = rng.choice
    if name == "ADWIN" or name == "ADWINAccuracy":
        return dict(delta=float(c([0.002, 0.05, 0.3, 1.0])), max_buckets=int(c([1, 2, 3, 5])), new_sample_thresh=int(c([1, 2, 5, 8, 32])),
                    window_size_thresh=int(c([1, 3, 10])), subwindow_size_thresh=int(c([1, 2, 5])), conservative_bound=bool(rng.integers(0, 2)))
    if name == "CUSUM":
        known = rng.random() < 0.4
        return dict(target=0.0 if known else None, sd_hat=1.0 if known else None, burn_in=int(c([1, 2, 3, 5, 10, 30])), delta=float(c([0.0, 0.005, 0.1, 0.5])),
                    threshold=float(c([1, 2, 4, 8, 20])), direction=[None, "positive", "negative"][int(rng.integers(0, 3))])
    if name == "PageHinkley":
        return dict(delta=float(c([0.0, 0.01, 0.1, 0.5])), threshold=float(c([0.05, 0.2, 0.5, 1, 2, 5])), burn_in=int(c([1, 2, 3, 5, 10, 30])),
                    direction=["positive", "negative"][int(rng.integers(0, 2))])
    if name == "DDM":
        ws = float(c([0.5, 1.0, 1.5, 2.0]))
        return dict(n_threshold=int(c([1, 2, 3, 5, 10, 30])), warning_scale=ws, drift_scale=ws + float(c([0.0, 0.5, 1.0, 2.0])))
    if name == "EDDM":
        wt = float(c([1.0, 0.98, 0.95, 0.9, 0.8]))
        return dict(n_threshold=int(c([1, 2, 3, 5, 10, 30])), warning_thresh=wt, drift_thresh=wt - float(c([0.0, 0.05, 0.1, 0.3])))
    if name == "STEPD":
        aw = float(c([0.5, 0.3, 0.1, 0.05]))
        return dict(window_size=int(c([1, 2, 3, 5, 10, 30])), alpha_warning=aw, alpha_drift=aw * float(c([1.0, 0.5, 0.1, 0.06])))
    if name == "LinearFourRates":
        dl = float(c([0.005, 0.02, 0.05, 0.2]))
        rates = ["tpr", "tnr", "ppv", "npv"]
        sub = [r for r in rates if rng.random() < 0.7] or ["tpr"]
        return dict(time_decay_factor=float(c([0.5, 0.9, 0.99])), warning_level=float(min(0.45, dl * float(c([1, 2, 4])))), detect_level=dl,
                    burn_in=int(c([1, 3, 10, 30])), num_mc=int(c([50, 100])), subsample=int(c([1, 1, 2, 3])), rates_tracked=sub, round_val=int(c([1, 2, 3])))
    if name == "KdqTreeStreaming":
        return dict(window_size=int(c([2, 3, 5, 8, 12, 20])), persistence=float(c([0.0, 0.05, 0.25, 0.5])), alpha=float(c([0.01, 0.05, 0.2, 0.5])),
                    bootstrap_samples=int(c([10, 20, 40])), count_ubound=int(c([1, 2, 5, 10])), cutpoint_proportion_lbound=2e-10)
    if name == "KdqTreeBatch":
        return dict(alpha=float(c([0.01, 0.05, 0.2, 0.5])), bootstrap_samples=int(c([10, 20, 40])), count_ubound=int(c([1, 2, 5, 10, 20])),
                    cutpoint_proportion_lbound=2e-10)
    if name == "PCACD":
        w = int(c([20, 30, 50]))
        return dict(window_size=w, ev_threshold=float(c([0.8, 0.95, 0.99])), delta=float(c([0.005, 0.05, 0.1])), divergence_metric=str(c(["kl", "intersection"])),
                    sample_period=float(c([0.05, 0.1, 0.2])) if w >= 20 else 0.1, online_scaling=bool(rng.integers(0, 2)))
    if name in ("HDDDM", "CDBD"):
        stat = str(c(["tstat", "stdev"]))
        sig = float(c([0.05, 0.2, 0.5, 1.0, 2.0])) if stat == "stdev" else float(c([0.01, 0.05, 0.3]))
        div = str(c(["H", "KL"]))
        return dict(detect_batch=int(c([1, 2, 3])), divergence=div, statistic=stat, significance=sig, subsets=int(rng.integers(2, 6)))
    if name == "NNDVI":
        return dict(k_nn=int(c([1, 2, 3, 5])), sampling_times=int(c([10, 20, 40])), alpha=float(c([0.01, 0.05, 0.2, 0.4])))
    raise ValueError(name)


def make(name, params):
    return CLS[name](**params)


def n_features(name, rng):
    if name in STREAM_X1 or name == "CDBD":
        return 1
    if name == "PCACD":
        return int(rng.integers(2, 5))
    return int(rng.integers(1, 4))


def workload(name, rng, params, length=None, d=None):
    """list of inputs for `feed`: scalars (x1), (y_true, y_pred) pairs (y), 1-d rows (xd), 2-d batches (batch; first = reference)"""
    k = kind(name)
    if k == "x1":
        n = length or int(rng.integers(150, 700))
        off = 0.0 if name != "PageHinkley" else float(rng.choice([3.0, 10.0, 10.0]))
        return gen.level_shift_stream(rng, n, seg=(3, 80), offset=off, heavy=True)
    if k == "y":
        n = length or int(rng.integers(150, 600))
        if name == "LinearFourRates":
            from .props.c06 import gen_pairs

            return gen_pairs(rng, n)
        bits = gen.bernoulli_piecewise(rng, n, seg=(3, 100))
        out = []
        for e in bits:
            yt = int(rng.integers(0, 2))
            out.append((yt, yt ^ e))
        return out
    if k == "xd":
        d = d or n_features(name, rng)
        if name == "PCACD":
            from .props.c11 import gen_stream

            w = params["window_size"]
            return list(gen_stream(rng, d, length or int(rng.integers(5, 9)) * w, w))
        w = params["window_size"]
        n = length or int(rng.integers(12, 24)) * w + 10
        out = []
        mu = rng.normal(0, 1, size=d)
        while len(out) < n:
            L = int(rng.integers(2 * w, 5 * w + 2)) if rng.random() < 0.8 else int(rng.integers(1, w + 2))
            if rng.random() < 0.8:
                mu = mu + rng.choice([-1, 1], size=d) * float(rng.choice([3, 5, 8]))
            out.extend(rng.normal(mu, 1, size=(L, d)))
        out = out[:n]
        if rng.random() < 0.2:
            # drop-outs: runs of exact zero vectors, also at the very start of the stream
            for _ in range(int(rng.integers(1, 5))):
                pos = 0 if rng.random() < 0.3 else int(rng.integers(0, n))
                for j in range(pos, min(n, pos + int(rng.integers(1, w + 2)))):
                    out[j] = np.zeros(d)
        return out
    d = d or n_features(name, rng)
    nb = length or int(rng.integers(8, 24))
    if name == "NNDVI":
        # k_nn <= 5 needs at least 5 distinct pooled points: no integer-valued or constant-column batches here
        return gen.batch_sequence(rng, nb, d, size=(8, 30), shift_p=0.4, dup_p=0.2, integer_p=0.0, const_p=0.0)
    if name in ("HDDDM", "CDBD", "KdqTreeBatch") and rng.random() < 0.15:
        # minimal batches (3 rows: the smallest reference detect_batch=1 can still split into a reference and a proxy batch)
        return gen.batch_sequence(rng, nb, d, size=(3, 7), shift_p=0.35, dup_p=0.0, const_p=0.0)
    return gen.batch_sequence(rng, nb, d, size=(8, 70), shift_p=0.35)


def feed(det, name, item, first=False):
    """one accepted update (or the initial set_reference for batch detectors)"""
    k = kind(name)
    if k == "x1":
        det.update(item)
    elif k == "y":
        det.update(item[0], item[1])
    elif k == "xd":
        det.update(np.asarray(item).reshape(1, -1).copy())
    else:
        if first and name != "KdqTreeBatch":
            det.set_reference(np.asarray(item).copy())
        else:
            det.update(np.asarray(item).copy())


def counters(det):
    if hasattr(det, "total_samples"):
        return det.total_samples, det.samples_since_reset
    if hasattr(det, "total_batches"):
        return det.total_batches, det.batches_since_reset
    return det.total_updates, det.updates_since_reset


def recs(det):
    r = getattr(det, "retraining_recs", None)
    if r is None:
        return None
    return [None if v is None else int(v) for v in list(r)]


def fl(v):
    try:
        return float(np.asarray(v, dtype=float).ravel()[0])
    except Exception:
        return v


def observe(det, name):
    """published outputs used by the twin comparisons (public attributes / methods only)"""
    o = {"state": det.drift_state, "counters": counters(det), "recs": recs(det)}
    if name in ("ADWIN", "ADWINAccuracy"):
        o["mean"], o["variance"] = fl(det.mean()), fl(det.variance())
    elif name == "STEPD":
        o["acc"] = (fl(det.recent_accuracy()), fl(det.past_accuracy()), fl(det.overall_accuracy()))
    elif name == "PageHinkley":
        df = det.to_dataframe()
        o["ph_rows"] = len(df)
        o["ph_last"] = [fl(v) for v in df.iloc[-1].tolist()] if len(df) else None
    elif name in ("HDDDM", "CDBD"):
        o["distance"] = fl(getattr(det, "current_distance", np.nan))
        o["beta"] = fl(getattr(det, "beta", np.nan))
        o["epsilon"] = [fl(v) for v in getattr(det, "epsilon", [])]
        o["reference_n"] = getattr(det, "reference_n", None)
    elif name == "NNDVI":
        rb = getattr(det, "reference_batch", None)
        o["reference"] = None if rb is None else np.asarray(rb).tolist()
    elif name == "LinearFourRates":
        o["all_states"] = len(det.all_drift_states)
    elif name == "PCACD":
        o["num_pcs"] = det.num_pcs
    return o


def obs_equal(a, b, tol=1e-9, skip=()):
    for k_ in a:
        if k_ in skip:
            continue
        if not _eq(a[k_], b.get(k_), tol):
            return k_
    return None


def _eq(x, y, tol):
    if isinstance(x, (list, tuple)) and isinstance(y, (list, tuple)):
        return len(x) == len(y) and all(_eq(p, q, tol) for p, q in zip(x, y))
    if isinstance(x, float) or isinstance(y, float):
        if x is None or y is None:
            return x is y
        try:
            x, y = float(x), float(y)
        except Exception:
            return x == y
        if x != x or y != y:
            return x != x and y != y
        return abs(x - y) <= tol * max(1.0, abs(x), abs(y))
    return x == y
