"""pytest plugin: runs the repository's own test-suite with the harness's contracts attached to the *real* classes
(in this process only).  Used by the thorough tier of C01 / C08 as an extra workload: the suite drives the detectors
through paths the generators do not (hand-made fixtures, example data sets), the contracts judge every call.

Only contracts that hand-poking tests cannot legitimately break are attached: state domain and counter sanity after
every detector `update`, structural tree invariants after every kdq-tree `build` / `fill`."""
import json
import os

import icontract

EVALS = {"update_post": 0, "kdq_post": 0}


class ContractBroken(AssertionError):
    pass


def _counters(self):
    for a, b in (("total_samples", "samples_since_reset"), ("total_batches", "batches_since_reset"), ("total_updates", "updates_since_reset")):
        if hasattr(self, a):
            return getattr(self, a), getattr(self, b)
    return 0, 0


def _post_update(self):
    EVALS["update_post"] += 1
    tot, since = _counters(self)
    return self.drift_state in (None, "warning", "drift") and 0 <= since <= tot


def _post_tree(self):
    from mon.props.c08 import tree_invariants

    EVALS["kdq_post"] += 1
    self._verif_build_only = False
    return tree_invariants(self) is None


def pytest_configure(config):
    from menelaus.change_detection import ADWIN, CUSUM, PageHinkley
    from menelaus.concept_drift import DDM, EDDM, MD3, STEPD, ADWINAccuracy, LinearFourRates
    from menelaus.data_drift import CDBD, HDDDM, NNDVI, PCACD, KdqTreeBatch, KdqTreeStreaming
    from menelaus.partitioners import KDQTreePartitioner

    for cls in (ADWIN, CUSUM, PageHinkley, DDM, EDDM, MD3, STEPD, ADWINAccuracy, LinearFourRates, CDBD, HDDDM, NNDVI, PCACD, KdqTreeBatch, KdqTreeStreaming):
        if "update" in cls.__dict__:
            cls.update = icontract.ensure(_post_update, error=ContractBroken)(cls.__dict__["update"])
    for m in ("build", "fill"):
        setattr(KDQTreePartitioner, m, icontract.ensure(_post_tree, error=ContractBroken)(KDQTreePartitioner.__dict__[m]))


def pytest_sessionfinish(session, exitstatus):
    out = os.environ.get("VERIF_CONTRACT_EVALS")
    if out:
        with open(out, "a") as f:
            f.write(json.dumps(EVALS) + "\n")
