"""Floating-point event recorder (observational only, never a verdict).

numpy.seterr(all="call") with a callback that records which function inside menelaus/
raised a divide / invalid / overflow / underflow event.  Takes the place of a UB sanitizer
for a pure-Python numeric library: the evidence lists where FP exceptions occurred."""
import collections
import os
import sys

import numpy as np

_events = collections.Counter()
_REPO = os.path.realpath(os.environ.get("VERIF_REPO", "/repo"))


def _cb(kind, flag):
    f = sys._getframe(1)
    depth = 0
    while f is not None and depth < 40:
        fn = f.f_code.co_filename
        if fn.startswith(_REPO) and "/menelaus/" in fn:
            _events["%s@%s:%s" % (kind, os.path.relpath(fn, _REPO), f.f_code.co_name)] += 1
            return
        f = f.f_back
        depth += 1
    _events["%s@outside-menelaus" % kind] += 1


def install():
    np.seterrcall(_cb)
    np.seterr(divide="call", invalid="call", over="call", under="ignore")


def summary():
    return dict(_events)
