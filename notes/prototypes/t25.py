import numpy as np, pandas as pd, warnings, itertools
warnings.simplefilter("ignore")
from menelaus.change_detection import ADWIN, CUSUM, PageHinkley
from menelaus.concept_drift import DDM, LinearFourRates
from menelaus.data_drift import HDDDM, CDBD, KdqTreeBatch, NNDVI, KdqTreeStreaming, PCACD
def conv(val, kind, names=None):
    val=np.array(val,float)
    if kind=="nd": return val
    if kind=="list": return val.tolist()
    if kind=="df": return pd.DataFrame(val, columns=names or [f"c{i}" for i in range(val.shape[1])])
def trace(det): 
    t=getattr(det,'total_samples',None); 
    if t is None: t=det.total_batches
    s=getattr(det,'samples_since_reset',None)
    if s is None: s=det.batches_since_reset
    return (det.drift_state,t,s)
def run(mk, calls, seed, inject=None):
    """calls: list of (meth, obj). inject=(pos, obj) malformed call before calls[pos]."""
    det=mk(); tr=[]; rej=None
    for i,(meth,o) in enumerate(calls):
        if inject and inject[0]==i:
            before=trace(det) if i>0 else None
            try:
                np.random.seed(1); getattr(det,inject[2])(inject[1]); rej=("ACCEPTED",)
            except ValueError: rej=("ValueError", before==(trace(det) if i>0 else None))
            except Exception as e: rej=(type(e).__name__,)
        try:
            np.random.seed(seed+i); getattr(det,meth)(o); tr.append(trace(det))
        except Exception as e:
            tr.append(("EXC",type(e).__name__)); 
    return tr,rej
res={}
for seed in range(6):
    rng=np.random.default_rng(seed)
    mus=rng.normal(0,1.5,4)
    bs=[rng.normal(mus[(i//3)%4],1,(int(rng.integers(10,30)),2)) for i in range(8)]
    X=np.vstack([rng.normal(mu,1,(25,2)) for mu in rng.normal(0,3,3)])
    xs=np.concatenate([rng.normal(mu,1,25) for mu in rng.normal(0,3,3)])
    dets=[("KB",lambda:KdqTreeBatch(bootstrap_samples=10,count_ubound=4,alpha=0.2),"batch",2),("H1",lambda:HDDDM(detect_batch=1,subsets=3),"batch",2),("H3",lambda:HDDDM(detect_batch=3),"batch",2),("NN",lambda:NNDVI(k_nn=3,sampling_times=10,alpha=0.2),"batch",2),
          ("KS",lambda:KdqTreeStreaming(window_size=8,bootstrap_samples=10,count_ubound=3,alpha=0.2),"stream",2),("PCACD",lambda:PCACD(window_size=20),"stream",2),("ADWIN",lambda:ADWIN(new_sample_thresh=4,delta=0.3),"stream",1),("CUSUM",lambda:CUSUM(burn_in=8,threshold=4),"stream",1),("PH",lambda:PageHinkley(burn_in=8,threshold=1),"stream",1)]
    for name,mk,mode,d in dets:
        for kind in ("nd","df","list"):
            if mode=="batch":
                calls=[("set_reference",conv(bs[0],kind))]+[("update",conv(b,kind)) for b in bs[1:]]
                bad_inputs={"one_row":conv(bs[1][:1],kind),"wide":conv(np.hstack([bs[1],bs[1][:,:1]]),kind), "renamed":conv(bs[1],"df",["x","y"])}
            else:
                data = X if d==2 else xs.reshape(-1,1)
                calls=[("update",conv(r.reshape(1,-1),kind)) for r in data]
                bad_inputs={"two_rows":conv(data[:2],kind),"wide":conv(np.hstack([data[:1],data[:1]]),kind),"renamed":conv(data[:1],"df",["x","y"][:d])}
            clean,_=run(mk,calls,seed*100)
            for bname,bo in bad_inputs.items():
                for pos in (0,1,3,len(calls)-1):
                    meth = calls[pos][0] if pos>0 or mode=="stream" else "set_reference"
                    tr,rej=run(mk,calls,seed*100,inject=(pos,bo,"update" if pos>0 else meth))
                    expect_reject = not (bname=="renamed" and (kind!="df" ))  # renamed df only must be rejected if names established by df
                    key=(name,kind,bname,"pos0" if pos==0 else "later", rej, tr==clean)
                    res[key]=res.get(key,0)+1
for k,v in sorted(res.items(), key=str):
    ok = (k[4] and k[4][0]=="ValueError" and k[5]) 
    if not ok: print(k,v)
print("cells",len(res))
