import numpy as np, warnings, scipy.stats
warnings.simplefilter("ignore")
from menelaus.data_drift import KdqTreeBatch, NNDVI
# RNG tap
class Tap:
    def __init__(s): s.ev=[]
    def __enter__(s):
        s.orig={n:getattr(np.random,n) for n in ("choice","permutation")}
        def mk(n):
            f=s.orig[n]
            def w(*a,**k):
                r=f(*a,**k); s.ev.append((n,a,k,np.array(r,copy=True))); return r
            return w
        for n in s.orig: setattr(np.random,n,mk(n))
        return s
    def __exit__(s,*a):
        for n,f in s.orig.items(): setattr(np.random,n,f)
# independent kdq tree
def build(data, cu, minsz, depth=0):
    n,m=data.shape; ax=depth%m; lo=data[:,ax].min(); hi=data[:,ax].max(); mid=lo+(hi-lo)/2
    if n<=cu or np.unique(data).size<=cu or (mid-lo)<=minsz[ax] or not (data[:,ax]>mid).any():
        return {"leaf":True}
    return {"leaf":False,"ax":ax,"mid":mid,"l":build(data[data[:,ax]<=mid],cu,minsz,depth+1),"r":build(data[data[:,ax]>mid],cu,minsz,depth+1)}
def leaves(t,out):
    if t["leaf"]: out.append(t)
    else: leaves(t["l"],out); leaves(t["r"],out)
    return out
def locate(t,x):
    while not t["leaf"]: t = t["l"] if x[t["ax"]]<=t["mid"] else t["r"]
    return t
def counts(t,data):
    L=leaves(t,[]); idx={id(l):i for i,l in enumerate(L)}; c=np.zeros(len(L),int)
    for x in data: c[idx[id(locate(t,x))]]+=1
    return c
def dist(c): c=np.asarray(c,float); return (c+0.5)/(c.sum()+len(c)/2)
def kl(p,q): return float(np.sum(p*np.log(p/q)))
bad=0;dr=0;st=0;ties=0
for seed in range(60):
    rng=np.random.default_rng(seed)
    alpha=float(rng.choice([0.01,0.1,0.3])); B=int(rng.choice([20,50])); cu=int(rng.choice([2,5,10])); prop=2e-10
    det=KdqTreeBatch(alpha=alpha,bootstrap_samples=B,count_ubound=cu,cutpoint_proportion_lbound=prop)
    mus=rng.normal(0,1.0,5); d=int(rng.integers(1,4))
    def batch(i): return rng.normal(mus[(i//3)%5],1,(int(rng.integers(10,60)),d))
    ref=batch(0)
    with Tap() as tap:
        np.random.seed(seed); det.set_reference(ref)
    def crit_from(ev, refc, ss):
        assert len(ev)==B, len(ev)
        ds=[]
        for n,a,k,r in ev:
            assert n=="choice" and k["size"]==2*ss and np.allclose(k["p"],dist(refc))
            h1=np.bincount(r[:ss],minlength=len(refc)); h2=np.bincount(r[ss:],minlength=len(refc))
            ds.append(kl(dist(h1),dist(h2)))
        return np.quantile(ds,1-alpha,method="nearest")
    minsz=[int(prop*np.ptp(ref[:,a])) for a in range(d)]
    tree=build(ref,cu,minsz); refc=counts(tree,ref); crit=crit_from(tap.ev,refc,len(ref))
    for i in range(1,15):
        b=batch(i)
        with Tap() as tap:
            np.random.seed(seed*100+i); det.update(b)
        st+=1
        if tap.ev:  # new reference built inside update (after drift)
            tree=build(curref,cu,[int(prop*np.ptp(curref[:,a])) for a in range(d)]); refc=counts(tree,curref); crit=crit_from(tap.ev,refc,len(curref))
        tc=counts(tree,b); dv=kl(dist(refc),dist(tc)); exp = dv>crit
        got = det.drift_state=="drift"; dr+=got
        if abs(dv-crit)<1e-12: ties+=1; exp=got
        if exp!=got: bad+=1; print("MISMATCH",seed,i,dv,crit,det._test_dist,det._critical_dist); break
        if got: curref=b
print("bad",bad,"drifts",dr,"steps",st,"ties",ties)
