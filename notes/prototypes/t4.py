import numpy as np, pandas as pd, warnings
warnings.simplefilter("ignore")
from menelaus.data_drift import HDDDM, CDBD, KdqTreeStreaming, KdqTreeBatch, NNDVI
rng = np.random.default_rng(1)
def batches(n, k=60, d=2, shift=None):
    out=[]
    for i in range(n):
        b = rng.normal(size=(k,d))
        if shift and i in shift: b += shift[i]
        out.append(b)
    return out
# HDM: explicit set_reference mid-run vs fresh twin
for db in (3,2,1):
    B = batches(12)
    a = HDDDM(detect_batch=db, subsets=3)
    np.random.seed(0)
    a.set_reference(B[0])
    for b in B[1:5]: a.update(b)
    np.random.seed(5); a.set_reference(B[5])
    f = HDDDM(detect_batch=db, subsets=3)
    np.random.seed(5); f.set_reference(B[5])
    ta=[];tf=[]
    for j,b in enumerate(B[6:]):
        np.random.seed(100+j); a.update(b); ta.append((a.drift_state, a.thresholds.get(a.total_batches)))
        np.random.seed(100+j); f.update(b); tf.append((f.drift_state, f.thresholds.get(f.total_batches)))
    print(db, "lambda", a._lambda, f._lambda)
    for x,y in zip(ta,tf): print("   ", x, y)
