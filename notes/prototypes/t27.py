import numpy as np, pandas as pd, warnings
warnings.simplefilter("ignore")
from menelaus.change_detection import ADWIN, CUSUM, PageHinkley
from menelaus.concept_drift import DDM, EDDM, STEPD, LinearFourRates, ADWINAccuracy
from menelaus.data_drift import HDDDM, CDBD, KdqTreeBatch, NNDVI, KdqTreeStreaming, PCACD
viol=[]; stats={}
def cnt(det):
    if hasattr(det,'total_samples'): return det.total_samples, det.samples_since_reset
    return det.total_batches, det.batches_since_reset
def check(name, det, feed, items, restart=1, extra_restart=None, warm=None, proxy=0, pre_total=0):
    """warm(epoch_pos, ctx)->bool allowed nonNone; extra_restart(ctx)->value or None"""
    prev_state=None; prev_ssr=cnt(det)[1]; calls=pre_total; epos=0; ctx={"errs":0}
    dr=0
    for i,it in enumerate(items):
        np.random.seed(i); feed(det,it); calls+=1
        tot,ssr=cnt(det); st=det.drift_state
        if prev_state=="drift": epos=0; ctx={"errs":0}; calls+=proxy
        epos+=1; ctx["it"]=it
        if st not in (None,"warning","drift"): viol.append((name,i,"domain",st))
        if tot!=calls: viol.append((name,i,"total",tot,calls)); return
        exp = restart if prev_state=="drift" else prev_ssr+1
        er = extra_restart(det,epos,ctx) if extra_restart else None
        if er is not None and prev_state!="drift": exp=er; 
        if ssr!=exp: viol.append((name,i,"ssr",ssr,exp,prev_state,epos)); return
        if warm and st is not None and not warm(det,epos,ctx): viol.append((name,i,"warmup",st,epos)); return
        if hasattr(det,"retraining_recs"):
            r=list(det.retraining_recs)
            if st=="drift" and not (r[0] is not None and r[0]<=r[1]==tot-1): viol.append((name,i,"recs",r,tot)); return
            if prev_state=="drift" and st!="drift" and not (r[0] is None and r[1] is None) and st is None: viol.append((name,i,"recs-not-cleared",r)); return
        dr+= st=="drift"; prev_state=st; prev_ssr=ssr
    stats[name]=stats.get(name,0)+dr
for seed in range(25):
    rng=np.random.default_rng(seed)
    xs=np.concatenate([rng.normal(mu,1,int(rng.integers(5,80))) for mu in rng.normal(0,3,8)])
    es=np.concatenate([(rng.random(int(rng.integers(5,100)))<p).astype(int) for p in rng.choice([0.02,0.2,0.5,0.9],8)])
    X=np.vstack([rng.normal(mu,1,(int(rng.integers(20,90)),2)) for mu in rng.normal(0,3,6)])
    fx=lambda d,x:d.update(x); fe=lambda d,e:d.update(1,1-e); fX=lambda d,x:d.update(x.reshape(1,-1))
    b=int(rng.choice([1,2,5,12])); 
    check("CUSUM",CUSUM(burn_in=max(b,2),threshold=3),fx,xs,warm=lambda d,ep,c:ep>d.burn_in)
    check("PH",PageHinkley(burn_in=b,threshold=1),fx,np.abs(xs)+1,warm=lambda d,ep,c:ep>d.burn_in)
    check("DDM",DDM(n_threshold=b),fe,es,warm=lambda d,ep,c:ep>=d.n_threshold)
    def eddm_warm(d,ep,c):
        return d._n_errors>=d.n_threshold  # placeholder uses private; real check counts errors itself
    check("EDDM",EDDM(n_threshold=b),fe,es,warm=eddm_warm)
    check("STEPD",STEPD(window_size=max(b,2),alpha_drift=0.05,alpha_warning=0.2),fe,es,warm=lambda d,ep,c:ep>=2*d.window_size)
    check("LFR",LinearFourRates(burn_in=b,num_mc=30,subsample=2),lambda d,e:d.update(1,1-e),es[:200],warm=lambda d,ep,c:ep>d.burn_in and ep%d.subsample==0)
    check("ADWIN",ADWIN(delta=0.3,new_sample_thresh=b,max_buckets=2),fx,xs,warm=lambda d,ep,c:d.total_samples%d.new_sample_thresh==0)
    check("ADWINAcc",ADWINAccuracy(delta=0.3,new_sample_thresh=b),fe,es,warm=lambda d,ep,c:d.total_samples%d.new_sample_thresh==0)
    w=int(rng.choice([3,8,15]))
    def ks_extra(d,ep,c): return 0 if ep==d.window_size else None
    # epoch position for KdqS continues across the reference-completion restart, handled via ep
    check("KdqS",KdqTreeStreaming(window_size=w,bootstrap_samples=15,count_ubound=2,alpha=0.3,persistence=0.3),fX,X,extra_restart=ks_extra,warm=lambda d,ep,c:ep>=2*d.window_size+int(np.floor(d.persistence*d.window_size)))
    pw=int(rng.choice([20,30]))
    check("PCACD",PCACD(window_size=pw,delta=0.01),fX,X,restart=0,warm=lambda d,ep,c:True)
    mus=rng.normal(0,1.5,5); bs=[rng.normal(mus[(i//2)%5],1,(int(rng.integers(8,40)),2)) for i in range(16)]
    fb=lambda d,x:d.update(x)
    for db in (1,2,3):
        h=HDDDM(detect_batch=db,subsets=3,significance=0.2); np.random.seed(0); h.set_reference(bs[0])
        check(f"HDDDM{db}",h,fb,bs[1:],restart=2 if db==1 else 1,proxy=1 if db==1 else 0,pre_total=1 if db==1 else 0,
              warm=lambda d,ep,c,db=db: ep>=db if db>1 else ep>=1)
    k=KdqTreeBatch(bootstrap_samples=15,count_ubound=3,alpha=0.3); np.random.seed(0); k.set_reference(bs[0]); check("KdqB",k,fb,bs[1:])
    k=KdqTreeBatch(bootstrap_samples=15,count_ubound=3,alpha=0.3); check("KdqB-noref",k,fb,bs,extra_restart=lambda d,ep,c: 0 if (ep==1 and d.total_batches==1) else None)
    n=NNDVI(k_nn=3,sampling_times=15,alpha=0.3); n.set_reference(bs[0]); check("NNDVI",n,fb,bs[1:])
print("violations",len(viol)); 
for v in viol[:15]: print(v)
print(stats)
