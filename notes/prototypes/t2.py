import numpy as np, pandas as pd, warnings
from menelaus.change_detection import CUSUM, ADWIN, PageHinkley
from menelaus.concept_drift import ADWINAccuracy
rng = np.random.default_rng(0)
# CUSUM: epoch 2 should react to current obs
x = np.concatenate([rng.normal(0,1,60), rng.normal(8,1,20), rng.normal(8,1,100), rng.normal(30,1,30)])
c = CUSUM(burn_in=30, threshold=5)
tr=[]
for i,v in enumerate(x):
    c.update(v)
    tr.append(c.drift_state)
print("drift idx", [i for i,s in enumerate(tr) if s=="drift"])
# fresh twin on data after first drift
first = tr.index("drift")
print("first", first, "target", c.target)
# ADWINAccuracy
try:
    a = ADWINAccuracy(delta=0.5)
    print("delta", a.delta)
    a.update(1,1)
    print("ok")
except Exception as e:
    print("ADWINAccuracy err", type(e), e)
# ADWIN with poison
a = ADWIN()
try:
    a.update([1,2])
except ValueError as e: print("rej", e)
try:
    a.update(3.0); print("accepted after")
except ValueError as e: print("poisoned:", e)
print(a.total_samples)
