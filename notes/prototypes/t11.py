import time, numpy as np, warnings
warnings.simplefilter("ignore")
import icontract
from menelaus.concept_drift import DDM
from menelaus.partitioners import KDQTreePartitioner
class InvariantBroken(Exception): pass
N={"n":0}
def state_ok(self):
    N["n"]+=1
    return self.drift_state in (None,"warning","drift") and self.total_samples >= self.samples_since_reset >= 0
D = icontract.invariant(state_ok, error=InvariantBroken)(DDM)
print(D is DDM)
d = DDM(n_threshold=5)
t=time.time()
for i in range(20000): d.update(1, i%3==0)
print("time", time.time()-t, "evals", N["n"], d.total_samples)
d._samples_since_reset = 10**9
try:
    d.update(1,1); print("no fire")
except InvariantBroken as e: print("fired", type(e))
