import math, numpy as np
class AdwinModel:
    """Independent model: buckets hold (start_idx, size); stats from raw data."""
    def __init__(s, delta, M, period, wmin, submin, conservative):
        s.delta, s.M, s.period, s.wmin, s.submin, s.cons = delta, M, period, wmin, submin, conservative
        s.x = []            # all inputs
        s.rows = []         # rows[i] = list of start indices of buckets of size 2**i, oldest first
        s.t = 0
    def W(s): return sum(len(r)*(1<<i) for i,r in enumerate(s.rows))
    def window(s): return s.x[len(s.x)-s.W():]
    def buckets_oldest_first(s):
        out=[]
        for i in range(len(s.rows)-1,-1,-1):
            for st in s.rows[i]: out.append((st,1<<i))
        return out
    def update(s, v):
        s.x.append(float(v)); s.t+=1
        if not s.rows: s.rows.append([])
        s.rows[0].append(s.t-1)
        i=0
        while i < len(s.rows) and len(s.rows[i]) == s.M+1:
            if i+1 == len(s.rows): s.rows.append([])
            a,b = s.rows[i][0], s.rows[i][1]
            assert b == a + (1<<i)
            s.rows[i] = s.rows[i][2:]
            s.rows[i+1].append(a)
            i+=1
        while s.rows and not s.rows[-1] and len(s.rows)>1: break
        drift=False; margins=[]
        if s.t % s.period == 0 and s.W() > s.wmin:
            again=True
            while again:
                again=False
                win = s.window(); W=len(win)
                if W==0: break
                var = float(np.var(win)); tot=math.fsum(win)
                bk = s.buckets_oldest_first()
                n0=0; 
                for j,(st,sz) in enumerate(bk[:-1] if (s.rows[0]) else bk):
                    n0+=sz; n1=W-n0
                    if n0>=s.submin and n1>=s.submin:
                        t0=math.fsum(win[:n0]); t1=tot-t0
                        diff = abs(t0/n0 - t1/n1)
                        nh = 1/(n0-s.submin+1)+1/(n1-s.submin+1)
                        if not s.cons:
                            d=math.log(2*math.log(W)/s.delta)
                            eps=math.sqrt(2*nh*var*d)+(2/3)*nh*d
                        else:
                            d=math.log(4*math.log(W)/s.delta)
                            eps=math.sqrt(0.5*nh*d)
                        margins.append(diff-eps)
                        if diff>eps:
                            drift=True; again=True
                            # drop oldest bucket
                            top=len(s.rows)-1
                            while not s.rows[top]: top-=1
                            s.rows[top]=s.rows[top][1:]
                            while len(s.rows)>1 and not s.rows[-1]: s.rows.pop()
                            break
        return drift, margins
