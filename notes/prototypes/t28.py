import numpy as np, warnings
from scipy.stats import norm
warnings.simplefilter("ignore")
from menelaus.partitioners import NNSpacePartitioner
from menelaus.data_drift import NNDVI
def nnps_dist(M,v1,v2):
    a=v1@M; b=v2@M; return float(np.sum(np.abs(a-b)/(a+b))/len(v1))
bad=0;n=0;ties=0
for seed in range(300):
    rng=np.random.default_rng(seed)
    d=int(rng.integers(1,4)); n1=int(rng.integers(2,25)); n2=int(rng.integers(2,25))
    lattice = rng.random()<0.5
    gen=(lambda m: rng.integers(0,4,(m,d)).astype(float)) if lattice else (lambda m: rng.normal(size=(m,d)))
    s1=gen(n1); s2=gen(n2)
    if rng.random()<0.3: s2[:min(n1,n2)//2]=s1[:min(n1,n2)//2]
    U=np.unique(np.vstack([s1,s2]),axis=0); k=int(rng.integers(1,len(U)+1))
    p=NNSpacePartitioner(k); p.build(s1,s2); n+=1
    ok = p.D.shape==U.shape and np.array_equal(p.D,U)
    set1={tuple(r) for r in s1}; set2={tuple(r) for r in s2}
    ok = ok and all((p.v1[i]==1.0)==(tuple(U[i]) in set1) for i in range(len(U))) and all((p.v2[i]==1.0)==(tuple(U[i]) in set2) for i in range(len(U)))
    A=p.adjacency_matrix
    dm=np.sqrt(((U[:,None,:]-U[None,:,:])**2).sum(-1))
    for i in range(len(U)):
        row=A[i]; 
        if row.sum()!=k or row[i]!=1: ok=False; break
        kth=np.sort(dm[i])[k-1]
        sel=np.where(row==1)[0]
        if (dm[i][sel]>kth+1e-12).any() or ((dm[i]<kth-1e-12)&(row==0)).any(): ok=False; break
    dd=NNSpacePartitioner.compute_nnps_distance(p.nnps_matrix,p.v1,p.v2)
    q=NNSpacePartitioner(k); q.build(s2,s1); d2=NNSpacePartitioner.compute_nnps_distance(q.nnps_matrix,q.v1,q.v2)
    ok = ok and abs(dd-nnps_dist(A,p.v1,p.v2))<1e-12 and 0<=dd<=1+1e-12
    # symmetry holds only if adjacency equal (ties may be broken identically since D sorted same)
    ok = ok and abs(dd-d2)<1e-12
    r=NNSpacePartitioner(min(k,len(np.unique(s1,axis=0)))); r.build(s1, np.vstack([s1,s1[:1]])); ok = ok and NNSpacePartitioner.compute_nnps_distance(r.nnps_matrix,r.v1,r.v2)==0
    if not ok: bad+=1; print("NNSP mismatch",seed,n1,n2,k,lattice)
print("nnsp bad",bad,"of",n)
# NNDVI with permutation log
bad=0; dr=0; st=0
for seed in range(40):
    rng=np.random.default_rng(seed)
    mus=rng.normal(0,1.5,4); bs=[rng.normal(mus[(i//3)%4],1,(int(rng.integers(6,30)),2)) for i in range(10)]
    alpha=float(rng.choice([0.01,0.1,0.4])); T=int(rng.choice([10,30])); k=int(rng.choice([1,3,5]))
    det=NNDVI(k_nn=k,sampling_times=T,alpha=alpha); det.set_reference(bs[0]); ref=bs[0]
    for i,b in enumerate(bs[1:]):
        log=[]; orig=np.random.permutation
        def w(x): 
            r=orig(x); log.append((np.array(x,copy=True),np.array(r,copy=True))); return r
        np.random.permutation=w
        try:
            np.random.seed(seed*10+i); det.update(b)
        finally: np.random.permutation=orig
        st+=1
        p=NNSpacePartitioner(k); p.build(ref,b)   # uses impl partitioner here only for brevity of prototype
        dact=nnps_dist(p.adjacency_matrix,p.v1,p.v2)
        assert len(log)==T and all(sorted(x)==sorted(r) and np.array_equal(x,p.v1) for x,r in log)
        ds=[nnps_dist(p.adjacency_matrix,r,1-r) for _,r in log]; mu,sd=np.mean(ds),np.std(ds); th=norm.ppf(1-alpha,mu,sd)
        exp=dact>th; got=det.drift_state=="drift"; dr+=got
        if abs(dact-th)<1e-12: exp=got
        if exp!=got or not np.array_equal(det.reference_batch, b if got else ref): bad+=1; print("NNDVI mismatch",seed,i,dact,th,got)
        if got: ref=b
print("nndvi bad",bad,"drifts",dr,"steps",st)
