import numpy as np, pandas as pd, warnings, traceback
warnings.simplefilter("ignore")
from menelaus.injection import *
rng=np.random.default_rng(0)
X = np.column_stack([rng.normal(size=12), rng.normal(size=12), rng.integers(0,3,12)]).astype(float)
df = pd.DataFrame(X, columns=["a","b","y"])
def t(name, f):
    try:
        r=f(); print(name, "ok", type(r).__name__, getattr(r,'shape',None))
    except Exception as e:
        print(name, "ERR", type(e).__name__, e)
t("prob empty", lambda: LabelProbabilityInjector()(X, 3,3, 2, {0.0:0.5}))
t("prob full", lambda: LabelProbabilityInjector()(X, 0,12, 2, {0.0:0.5}))
t("prob df", lambda: LabelProbabilityInjector()(df, 2,9, "y", {0.0:0.5}))
d={0.0:0.5}; LabelProbabilityInjector()(X,0,12,2,d); print("dict mutated:", d)
t("dirichlet", lambda: LabelDirichletInjector()(X,0,12,2,{0.0:1,1.0:1,2.0:1}))
t("shift empty", lambda: FeatureShiftInjector()(X,4,4,0,0.5))
t("swap", lambda: FeatureSwapInjector()(df,2,5,"a","b"))
t("cover", lambda: FeatureCoverInjector()(df,"y",6,random_state=0))
t("cover np", lambda: FeatureCoverInjector()(X,2,6,random_state=0))
t("brown empty", lambda: BrownianNoiseInjector()(X,4,4,0,x0=1.0))
t("brown 1", lambda: BrownianNoiseInjector()(X,4,5,0,x0=1.0))
t("join", lambda: LabelJoinInjector()(df,0,12,"y",0.0,1.0,7.0))
# int ndarray shift
Xi = np.arange(12).reshape(6,2)
r = FeatureShiftInjector()(Xi,0,6,0,0.5); print(Xi[:,0], r[:,0], r.dtype)
# mixed df
dfm = pd.DataFrame({"a":rng.normal(size=6),"lab":list("xyxyxy")})
r = LabelSwapInjector()(dfm,0,6,"lab","x","y"); print(r.dtypes.to_dict(), r["lab"].tolist())
# Fortran-order / views
Xf = np.asfortranarray(X); r=FeatureSwapInjector()(Xf,2,5,0,1); print(np.shares_memory(r,Xf))
