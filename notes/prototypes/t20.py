import numpy as np, pandas as pd, warnings
warnings.simplefilter("ignore")
from sklearn.base import BaseEstimator, ClassifierMixin
from menelaus.concept_drift import MD3
LOG=[]
class Probe(BaseEstimator, ClassifierMixin):
    def __init__(self, thr=0.0, tag="main"): self.thr=thr; self.tag=tag
    def fit(self, X, y): LOG.append(("fit", self.tag, len(X), tuple(np.asarray(X)[:,0].round(6)))); self.classes_=np.array([0,1]); return self
    def predict(self, X):
        X=np.asarray(X); LOG.append(("predict", self.tag, len(X))); return (X[:,0]>self.thr).astype(int)
def margin(self_det, sample, clf):
    LOG.append(("margin", getattr(clf,'tag',None), float(sample[0]))); return int(abs(sample[0]-clf.thr)<=0.5)
rng=np.random.default_rng(0)
N=20
ref=pd.DataFrame({"a":rng.normal(0,1,N),"b":rng.normal(0,1,N)}); ref["y"]=(ref.a>0).astype(int)
ref.loc[rng.random(N)<0.2,"y"]^=1
det=MD3(clf=Probe(0.0,"main"), margin_calculation_function=margin, sensitivity=1.0, k=4, oracle_data_length_required=5)
det.set_reference(ref, target_name="y")
print(det.reference_distribution, det.forgetting_factor)
fits=[e for e in LOG if e[0]=="fit"]; print(len(fits), [f[2] for f in fits], set(f[1] for f in fits))
margins=[e for e in LOG if e[0]=="margin"]; print(len(margins))
# drive
for i in range(200):
    x=pd.DataFrame({"a":[rng.normal(0,0.3)],"b":[0.0]})
    try:
        det.update(x)
    except ValueError as e:
        lab=x.copy(); lab["y"]=int(x.a.iloc[0]<=0)  # wrong labels -> drift
        det.give_oracle_label(lab)
    if det.drift_state: print(i, det.drift_state, det.waiting_for_oracle, det.total_updates, det.updates_since_reset, round(det.curr_margin_density,3))
    if i>40: break
