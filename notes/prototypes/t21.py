import numpy as np, warnings
warnings.simplefilter("ignore")
from menelaus.data_drift import PCACD
from pcacd_model import PCACDModel
bad=0;dr=0;steps=0;sc=0
for seed in range(40):
    rng=np.random.default_rng(seed)
    w=int(rng.choice([20,40,60,100])); ev=float(rng.choice([0.6,0.9,0.99,0.999])); delta=float(rng.choice([0.01,0.1,0.3])); metric=str(rng.choice(["kl","intersection"])); sp=float(rng.choice([0.05,0.1,0.2])); scal=bool(rng.integers(0,2))
    d=int(rng.integers(2,5))
    det=PCACD(window_size=w,ev_threshold=ev,delta=delta,divergence_metric=metric,sample_period=sp,online_scaling=scal)
    m=PCACDModel(w,ev,delta,metric,sp,scal)
    segs=[]
    for j in range(int(rng.integers(2,6))):
        A=rng.normal(size=(d,d)); mu=rng.normal(0,2,d)*(j>0)
        segs.append(rng.normal(size=(int(rng.integers(w,4*w)),d))@A*rng.uniform(0.5,2)+mu)
    X=np.vstack(segs)
    for i,x in enumerate(X):
        det.update(x.reshape(1,-1)); st,score=m.update(x); steps+=1
        ok = det.drift_state==st and det.samples_since_reset==m.ssr
        if score is not None:
            sc+=1; ok = ok and abs(det._change_score[-1]-score)<1e-9
        dr+= st=="drift"
        if not ok:
            bad+=1; print("MISMATCH",seed,i,(w,ev,delta,metric,sp,scal,d),det.drift_state,st,det.samples_since_reset,m.ssr,det._change_score[-1],score,det.num_pcs,getattr(m,'npc',None)); break
print("bad",bad,"drifts",dr,"steps",steps,"scores",sc)
