import numpy as np, pandas as pd, warnings
warnings.simplefilter("ignore")
from menelaus.data_drift import HDDDM, CDBD, KdqTreeStreaming, KdqTreeBatch, NNDVI, PCACD
from menelaus.change_detection import CUSUM, ADWIN, PageHinkley
rng = np.random.default_rng(1)
# (a) rejected first input fixes width (batch)
d = KdqTreeBatch(bootstrap_samples=5)
try: d.update(np.ones((1,3)))
except ValueError as e: print("a1 rejected:", e)
try: d.update(rng.normal(size=(10,2))); print("a2 accepted")
except ValueError as e: print("a2 REJECTED due to poisoned width:", e)
print("total_batches", d.total_batches)
# (b) df after arrays skips width
d = KdqTreeBatch(bootstrap_samples=5)
d.update(rng.normal(size=(10,2)))
try:
    d.update(pd.DataFrame(rng.normal(size=(10,3)), columns=list("abc"))); print("b accepted 3-col df after 2-col array")
except Exception as e: print("b:", type(e).__name__, e)
# (c) arrays after df with same width OK; df renamed -> rejected
# (d) streaming multirow
s = KdqTreeStreaming(window_size=5, bootstrap_samples=5)
try: s.update(np.ones((2,3)))
except ValueError as e: print("d1 rejected:", e)
try: s.update(np.ones((1,2))); print("d2 accepted")
except ValueError as e: print("d2 REJECTED:", e)
# (e) NNDVI aliasing of reference (DataFrame)
ref = pd.DataFrame(rng.normal(size=(30,2)), columns=["a","b"])
n = NNDVI(k_nn=3, sampling_times=20)
n.set_reference(ref)
before = n.reference_batch.copy()
ref.iloc[:, :] = 100.0
print("NNDVI ref aliased:", not np.array_equal(before, n.reference_batch))
# ndarray
ref = rng.normal(size=(30,2)); n.set_reference(ref); before=n.reference_batch.copy(); ref[:] = 5
print("NNDVI ref aliased (ndarray):", not np.array_equal(before, n.reference_batch))
# CUSUM aliasing
c = CUSUM(burn_in=5)
buf = pd.DataFrame({"x":[0.0]})
for v in [1.,2.,3.]:
    buf.iloc[0,0]=v; c.update(buf)
print("CUSUM stream:", [float(s[0,0]) for s in c._stream])
# CDBD list
cd = CDBD()
try:
    cd.set_reference(list(rng.normal(size=30)))
except Exception as e: print("CDBD list:", type(e).__name__, e)
h = HDDDM()
try:
    h.set_reference(rng.normal(size=(30,2)).tolist()); h.update(rng.normal(size=(30,2)).tolist()); print("HDDDM list ok")
except Exception as e: print("HDDDM list:", type(e).__name__, e)
