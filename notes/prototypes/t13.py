import numpy as np
from menelaus.partitioners import KDQTreePartitioner
v=[123456.789, 123456.78900000002, 190303.85261997467, 190303.8526199747, 190303.85261997473]
data=np.array([[x, float(i)] for i,x in enumerate(v)])
p=KDQTreePartitioner(count_ubound=1, cutpoint_proportion_lbound=0.0); p.build(data)
f=np.array([[1e9, 0.0],[1e9,4.0],[0.0,2.2],[190303.85261997473, 3.5]])
p.fill(f,"t",reset=True)
print(p.leaf_counts("build"), p.leaf_counts("t"), "root t", p.node.num_samples_in_compared_subtrees)
