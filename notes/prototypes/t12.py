import numpy as np, warnings
warnings.simplefilter("ignore")
from menelaus.partitioners import KDQTreePartitioner, KDQTreeNode
def check(data, fillers, cu=1, prop=0.0):
    p = KDQTreePartitioner(count_ubound=cu, cutpoint_proportion_lbound=prop)
    p.build(data)
    lc = p.leaf_counts("build")
    ok1 = sum(lc)==len(data)
    p.fill(fillers,"t",reset=True)
    lt = p.leaf_counts("t")
    ok2 = sum(lt)==len(fillers)
    # internal nodes with missing child
    miss=[]
    def walk(n):
        if n is None: return
        if n.axis is not None and (n.left is None or n.right is None): miss.append(n)
        walk(n.left); walk(n.right)
    walk(p.node)
    return ok1, ok2, len(miss), lc, lt
a=1.0; b=np.nextafter(1.0,2.0)
data=np.array([[a,0.],[b,1.],[a,2.],[b,3.]])
print(check(data, data))
# many adjacent
vals=[1.0]
for i in range(6): vals.append(np.nextafter(vals[-1],2.0))
data=np.array([[v, i] for i,v in enumerate(vals)])
print(check(data, data))
# large values
data=np.array([[1e16, 1.],[1e16+2, 2.],[1e16+4,3.]])
print(check(data,data))
big=np.array([[3.0,1.],[3.0000000000000004,2.]])
print(check(big,big))
rng=np.random.default_rng(0)
cnt=0
for s in range(2000):
    base=rng.choice([1.0,1e-300,1e10,123456.789, 0.1])
    k=rng.integers(2,6)
    v=[base]
    for i in range(k): v.append(np.nextafter(v[-1], np.inf) if rng.random()<0.7 else v[-1]+base*rng.random())
    data=np.array([[x, float(i)] for i,x in enumerate(v)])
    r=check(data,data)
    if not(r[0] and r[1]) or r[2]: cnt+=1; print(s,r, v); 
    if cnt>3: break
print("bad",cnt)
