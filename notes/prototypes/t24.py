import numpy as np, pandas as pd, warnings, copy
warnings.simplefilter("ignore")
from menelaus.change_detection import ADWIN, CUSUM, PageHinkley
from menelaus.data_drift import HDDDM, CDBD, KdqTreeBatch, NNDVI, KdqTreeStreaming, PCACD
def mkobj(val, kind):
    val=np.array(val,float)
    if kind=="nd": return val.copy()
    if kind=="ndF": return np.asfortranarray(val)
    if kind=="view": 
        big=np.zeros((val.shape[0]*2,val.shape[1]*2)); big[::2,::2]=val; return big[::2,::2]
    if kind=="df": return pd.DataFrame(val, columns=[f"c{i}" for i in range(val.shape[1])])
def clobber(o):
    if isinstance(o,pd.DataFrame): o.iloc[:,:]=1e6
    else: o[...]=1e6
def snapshot(o): return o.to_numpy().copy() if isinstance(o,pd.DataFrame) else np.array(o,copy=True)
def run(mk, calls, kind, alias, seed):
    det=mk(); tr=[]; mod=0
    for i,(meth,val) in enumerate(calls):
        o=mkobj(val,kind); before=snapshot(o)
        np.random.seed(seed+i); getattr(det,meth)(o)
        if not np.array_equal(before,snapshot(o)): mod+=1
        if alias: clobber(o)
        tr.append((det.drift_state,))
    return tr,mod
bad=0;n=0
for seed in range(15):
    rng=np.random.default_rng(seed)
    mus=rng.normal(0,1.5,4)
    bs=[rng.normal(mus[(i//3)%4],1,(int(rng.integers(10,40)),2)) for i in range(10)]
    bcalls=[("set_reference",bs[0])]+[("update",b) for b in bs[1:]]
    xs=np.concatenate([rng.normal(mu,1,40) for mu in rng.normal(0,3,4)])
    scalls=[("update",[[x]]) for x in xs]
    X=np.vstack([rng.normal(mu,1,(60,2)) for mu in rng.normal(0,3,3)])
    mcalls=[("update",[r]) for r in X]
    for name,mk,calls in [("HDDDM1",lambda:HDDDM(detect_batch=1,subsets=3),bcalls),("HDDDM3",lambda:HDDDM(detect_batch=3),bcalls),("KB",lambda:KdqTreeBatch(bootstrap_samples=20,count_ubound=4,alpha=0.2),bcalls),("NN",lambda:NNDVI(k_nn=3,sampling_times=20,alpha=0.2),bcalls),
                          ("CUSUM",lambda:CUSUM(burn_in=8,threshold=4),scalls),("PH",lambda:PageHinkley(burn_in=8,threshold=1),scalls),("ADWIN",lambda:ADWIN(new_sample_thresh=4,delta=0.3),scalls),
                          ("KS",lambda:KdqTreeStreaming(window_size=10,bootstrap_samples=20,count_ubound=3,alpha=0.2,persistence=0.1),mcalls),("PCACD",lambda:PCACD(window_size=30),mcalls)]:
        for kind in ("nd","ndF","view","df"):
            a,ma=run(mk,calls,kind,True,seed*100); b,mb=run(mk,calls,kind,False,seed*100); n+=1
            if a!=b or ma or mb:
                bad+=1; print("ALIAS",name,kind,seed,"modified",ma,mb,"first diff", next((i for i,(x,y) in enumerate(zip(a,b)) if x!=y),None))
print("bad",bad,"runs",n)
