import numpy as np, pandas as pd, warnings
warnings.simplefilter("ignore")
from menelaus.partitioners import NNSpacePartitioner, KDQTreePartitioner
from menelaus.data_drift import PCACD, HDDDM, CDBD, KdqTreeStreaming, KdqTreeBatch, NNDVI
rng = np.random.default_rng(0)
# NNSP unequal sizes
s1 = rng.normal(size=(5,2)); s2 = rng.normal(size=(9,2))+1
p = NNSpacePartitioner(k=3); p.build(s1,s2)
D=p.D
in1 = np.array([any((row==r).all() for r in s1) for row in D]).astype(float)
print("v1 correct?", (p.v1==in1).all(), p.v1.sum(), in1.sum())
d12 = NNSpacePartitioner.compute_nnps_distance(p.nnps_matrix,p.v1,p.v2)
p2 = NNSpacePartitioner(k=3); p2.build(s2,s1)
d21 = NNSpacePartitioner.compute_nnps_distance(p2.nnps_matrix,p2.v1,p2.v2)
print("sym?", d12, d21)
# PCACD online_scaling False
try:
    det = PCACD(window_size=40, online_scaling=False, divergence_metric="intersection")
    X = rng.normal(size=(200,3))
    for r in X: det.update(r.reshape(1,-1))
    print("pcacd noscale ok")
except Exception as e:
    print("PCACD noscale err:", type(e).__name__, e)
# PCACD multi comps intersection identical windows
det = PCACD(window_size=40, divergence_metric="intersection", ev_threshold=0.999)
base = rng.normal(size=(40,3))*np.array([5,2,1])
X = np.vstack([base]*6)
for r in X: det.update(r.reshape(1,-1))
print("num_pcs", det.num_pcs, "scores", det._change_score[:12], det.lower, det.upper)
