import numpy as np, warnings
warnings.simplefilter("ignore")
from menelaus.data_drift import KdqTreeStreaming, PCACD
rng=np.random.default_rng(0)
X = np.vstack([rng.normal(0,1,(120,2)), rng.normal(5,1,(120,2)), rng.normal(-5,1,(120,2))])
np.random.seed(0)
k = KdqTreeStreaming(window_size=20, bootstrap_samples=50, count_ubound=5)
for i,r in enumerate(X):
    k.update(r.reshape(1,-1))
    if i%10==0 or k.drift_state: print(i,k.total_samples,k.samples_since_reset,k.drift_state,k._test_dist,k._critical_dist,k._drift_counter, k._test_data_size)
