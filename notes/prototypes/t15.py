import numpy as np, pandas as pd, warnings, copy
warnings.simplefilter("ignore")
from menelaus.concept_drift import DDM, EDDM, STEPD
from menelaus.change_detection import CUSUM, PageHinkley
from menelaus.data_drift import HDDDM, CDBD, KdqTreeBatch, NNDVI, KdqTreeStreaming
def recs(d, off):
    r=getattr(d,'retraining_recs',None)
    if r is None: return None
    return tuple(None if v is None else int(v)-off for v in r)
def twin_stream(mk, feed, xs, seedbase, carry=None, name=""):
    """mk(): new detector; feed(det,x)."""
    main=mk(); twin=None; off=0; mism=0; epochs=0; cmp=0
    hist=[]
    for i,x in enumerate(xs):
        was_drift = main.drift_state=="drift"
        if was_drift:
            twin = carry(mk, hist) if carry else mk(); off=i; epochs+=1
        np.random.seed(seedbase+i); feed(main,x)
        hist.append(x)
        if twin is not None:
            np.random.seed(seedbase+i); feed(twin,x); cmp+=1
            a=(main.drift_state, recs(main,off)); b=(twin.drift_state, recs(twin,0))
            if a!=b:
                mism+=1
                if mism<3: print("  ",name,"mismatch at",i,"off",off,a,b)
    return mism, epochs, cmp
rng=np.random.default_rng(5)
tot=0
for seed in range(30):
    rng=np.random.default_rng(seed)
    es=np.concatenate([(rng.random(int(rng.integers(20,150)))<p).astype(int) for p in rng.choice([0.02,0.1,0.3,0.6,0.9],8)])
    fe=lambda d,e: d.update(1,1-e)
    for name,mk in [("DDM",lambda:DDM(n_threshold=int(5))),("EDDM",lambda:EDDM(n_threshold=4)),("STEPD",lambda:STEPD(window_size=8, alpha_drift=0.01))]:
        m,e,c=twin_stream(mk,fe,es,1000,name=name); tot+=m
        if seed==0: print(name,m,e,c)
    xs=np.concatenate([rng.normal(mu,1,int(rng.integers(20,120))) for mu in rng.normal(0,4,8)])
    fx=lambda d,x: d.update(x)
    m,e,c=twin_stream(lambda:PageHinkley(burn_in=8,threshold=2,delta=0.01), fx, np.abs(xs)+1, 0, name="PH"); tot+=m
    if seed==0: print("PH",m,e,c)
    def carry_cusum(mk,hist):
        b=10; last=np.array(hist[-b:],dtype=float)
        return CUSUM(target=np.mean(last), sd_hat=np.std(last), burn_in=b, threshold=6)
    m,e,c=twin_stream(lambda:CUSUM(burn_in=10,threshold=6), fx, xs, 0, carry=carry_cusum, name="CUSUM"); tot+=m
    if seed==0: print("CUSUM",m,e,c)
    X=np.vstack([rng.normal(mu,1,(int(rng.integers(30,100)),2)) for mu in rng.normal(0,3,6)])
    fX=lambda d,x: d.update(x.reshape(1,-1))
    m,e,c=twin_stream(lambda:KdqTreeStreaming(window_size=10,bootstrap_samples=30,count_ubound=3,alpha=0.1,persistence=0.2), fX, X, 0, name="KdqS"); tot+=m
    if seed==0: print("KdqS",m,e,c)
print("total mismatches", tot)
