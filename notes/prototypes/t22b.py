import numpy as np, pandas as pd, warnings
warnings.simplefilter("ignore")
from menelaus.data_drift import HDDDM, CDBD, KdqTreeBatch, NNDVI
bad=0; n=0; drifts=0
for seed in range(60):
    rng=np.random.default_rng(seed)
    d=int(rng.integers(1,4)); mus=rng.normal(0,1.2,5)
    bs=[rng.normal(mus[(i//3)%5],1,(int(rng.integers(8,50)),d)) for i in range(12)]
    # duplicates
    bs=[np.round(b,1) if seed%3==0 else b for b in bs]
    perm=[b[rng.permutation(len(b))] for b in bs]
    for name,mk in [("H3",lambda:HDDDM(detect_batch=3)),("H2",lambda:HDDDM(detect_batch=2,subsets=3)),("KB",lambda:KdqTreeBatch(bootstrap_samples=20,count_ubound=4,alpha=0.1)),("NN",lambda:NNDVI(k_nn=3,sampling_times=20,alpha=0.1))]:
        if name.startswith("C") and d!=1: continue
        tr=[]
        for data in (bs,perm):
            det=mk(); np.random.seed(seed); det.set_reference(data[0]); t=[]
            for i,b in enumerate(data[1:]):
                np.random.seed(seed*50+i); det.update(b)
                val = det.current_distance if name[0]=="H" else (det._test_dist if name=="KB" else None)
                t.append((det.drift_state, None if val is None else round(float(val),12)))
            tr.append(t)
        n+=1; drifts+=sum(s=="drift" for s,_ in tr[0])
        a,b=tr
        if name=="H2":
            k=next((i for i,(x,y) in enumerate(zip(a,b)) if x[0]!=y[0]), len(a))
            a=[v for _,v in a[:k+1]]; b=[v for _,v in b[:k+1]]   # distances while references coincide
        if a!=b: bad+=1; print("PERM MISMATCH",name,seed,[ (x,y) for x,y in zip(a,b) if x!=y][:2])
print("bad",bad,"runs",n,"drifts",drifts)
