import numpy as np, warnings
warnings.simplefilter("ignore")
from menelaus.change_detection import ADWIN, CUSUM, PageHinkley
from menelaus.concept_drift import DDM, EDDM, STEPD, LinearFourRates
from menelaus.data_drift import HDDDM, KdqTreeBatch, NNDVI, KdqTreeStreaming
INF=10**9
def first(tr): return next((i for i,s in enumerate(tr) if s=="drift"), INF)
def run_stream(mk, xs, feed, seed):
    d=mk(); tr=[]
    for i,x in enumerate(xs):
        np.random.seed(seed+i); feed(d,x); tr.append(d.drift_state)
    return tr
bad=0; diff=0; n=0
for seed in range(40):
    rng=np.random.default_rng(seed)
    xs=np.concatenate([rng.normal(mu,1,int(rng.integers(20,100))) for mu in rng.normal(0,2,5)])
    es=np.concatenate([(rng.random(int(rng.integers(20,120)))<p).astype(int) for p in rng.choice([0.05,0.2,0.5,0.8],5)])
    fx=lambda d,x:d.update(x); fe=lambda d,e:d.update(1,1-e)
    fams=[
     ("ADWIN",[lambda v=v:ADWIN(delta=v,new_sample_thresh=4) for v in (0.5,0.05,0.002)],xs,fx),
     ("CUSUM",[lambda v=v:CUSUM(burn_in=10,threshold=v) for v in (2,5,9)],xs,fx),
     ("PH",[lambda v=v:PageHinkley(burn_in=10,threshold=v) for v in (0.5,2,8)],np.abs(xs)+1,fx),
     ("DDM",[lambda v=v:DDM(n_threshold=8,drift_scale=v) for v in (2.1,3,4)],es,fe),
     ("EDDM",[lambda v=v:EDDM(n_threshold=5,drift_thresh=v,warning_thresh=0.97) for v in (0.95,0.9,0.7)],es,fe),
     ("STEPD",[lambda v=v:STEPD(window_size=8,alpha_drift=v,alpha_warning=0.2) for v in (0.1,0.01,0.001)],es,fe),
     ("LFR",[lambda v=v:LinearFourRates(burn_in=10,num_mc=40,detect_level=v,warning_level=0.2) for v in (0.1,0.03,0.005)],es[:150],lambda d,e:d.update(int(e>0)^1 if False else 1, 1-e)),
    ]
    for name,mks,data,feed in fams:
        f=[first(run_stream(mk,data,feed,seed*1000)) for mk in mks]; n+=1
        if not (f[0]<=f[1]<=f[2]): bad+=1; print("VIOL",name,seed,f)
        if len(set(f))>1: diff+=1
    # batch
    mus=rng.normal(0,1,5); bs=[rng.normal(mus[(i//3)%5],1,(int(rng.integers(10,50)),2)) for i in range(12)]
    for name,mks in [("KB",[lambda v=v:KdqTreeBatch(alpha=v,bootstrap_samples=30,count_ubound=4) for v in (0.4,0.1,0.01)]),("NN",[lambda v=v:NNDVI(k_nn=3,sampling_times=20,alpha=v) for v in (0.4,0.1,0.01)]),
                     ("H3t",[lambda v=v:HDDDM(detect_batch=3,significance=v) for v in (0.5,0.1,0.01)]),("H3s",[lambda v=v:HDDDM(detect_batch=3,statistic="stdev",significance=v) for v in (0.2,1,3)]),("H1t",[lambda v=v:HDDDM(detect_batch=1,significance=v,subsets=3) for v in (0.5,0.1,0.01)])]:
        f=[]
        for mk in mks:
            d=mk(); np.random.seed(seed); d.set_reference(bs[0]); tr=[]
            for i,b in enumerate(bs[1:]):
                np.random.seed(seed*77+i); d.update(b); tr.append(d.drift_state)
            f.append(first(tr))
        n+=1
        if not (f[0]<=f[1]<=f[2]): bad+=1; print("VIOL",name,seed,f)
        if len(set(f))>1: diff+=1
print("bad",bad,"families",n,"with differing first drift",diff)
