import numpy as np, pandas as pd
ev=[]
orig=np.random.choice
def w(*a,**k):
    r=orig(*a,**k); ev.append((a,{kk:(vv if not hasattr(vv,'shape') else 'arr') for kk,vv in k.items()},np.array(r).shape)); return r
np.random.choice=w
df=pd.DataFrame(np.arange(20.).reshape(10,2))
np.random.seed(3); s=df.sample(n=6,replace=True)
print(ev, list(s.index))
np.random.choice=orig
np.random.seed(3); print(list(df.sample(n=6,replace=True).index))
