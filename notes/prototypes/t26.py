import numpy as np, warnings, math, itertools, time
warnings.simplefilter("ignore")
from menelaus.concept_drift import LinearFourRates
def exact_cdf(p, N, eta):
    # returns sorted support values and probabilities by enumeration (N<=16) else simulation
    w=(1-eta)*eta**(N-np.arange(1,N+1))
    if N<=14:
        vals=[];probs=[]
        for bits in itertools.product((0,1),repeat=N):
            b=np.array(bits); vals.append(float(w@b)); k=b.sum(); probs.append(p**k*(1-p)**(N-k))
        vals=np.array(vals); probs=np.array(probs); o=np.argsort(vals); return vals[o], np.cumsum(probs[o]), True
    rng=np.random.default_rng(12345)
    B=(rng.random((200000,N))<p); v=np.sort(B@w); return v, np.arange(1,len(v)+1)/len(v), False
def F(vals,cdf,x,strict=False):
    i=np.searchsorted(vals,x,side="left" if strict else "right"); return 0.0 if i==0 else float(cdf[i-1])
calls=[]
t0=time.time()
for seed in range(40):
    rng=np.random.default_rng(seed)
    eta=float(rng.choice([0.5,0.9,0.99])); lv=float(rng.choice([0.01,0.05,0.2])); nm=int(rng.choice([50,200]))
    d=LinearFourRates(time_decay_factor=eta,detect_level=lv,warning_level=min(0.4,2*lv),burn_in=5,num_mc=nm,round_val=2)
    orig=d._sim_bounds
    def wrap(est,den,orig=orig,eta=eta,lv=lv,nm=nm):
        r=orig(est,den); calls.append((est,int(den),eta,lv,nm,r)); return r
    d._sim_bounds=wrap
    np.random.seed(seed)
    yt=rng.integers(0,2,120); e=rng.random(120)<rng.choice([0.1,0.3])
    for a,b in zip(yt,e): d.update(int(a), int(a)^int(b))
print("calls",len(calls),"time",time.time()-t0)
bad=0; cache={}
for est,N,eta,lv,nm,r in calls:
    key=(round(est,6),N,eta)
    if key not in cache: cache[key]=exact_cdf(est,N,eta)
    vals,cdf,ex=cache[key]
    se=math.sqrt(lv*(1-lv)/nm); band=6*se+ (0 if ex else 0.01) + 1.0/nm
    lo=r["lb_detect"]; hi=r["ub_detect"]
    ok = lo<=hi and F(vals,cdf,lo+1e-12)>=lv-band and F(vals,cdf,lo-1e-12,strict=True)<=lv+band and F(vals,cdf,hi+1e-12)>=1-lv-band and F(vals,cdf,hi-1e-12,strict=True)<=1-lv+band
    if not ok: bad+=1; print("BAND", est,N,eta,lv,nm,lo,hi,F(vals,cdf,lo),F(vals,cdf,lo,True),F(vals,cdf,hi),F(vals,cdf,hi,True),band)
print("bad",bad,"time",time.time()-t0)
