import numpy as np, warnings
warnings.simplefilter("ignore")
from menelaus.data_drift import HDDDM, CDBD
from hdm_model import HDMModel
bad=0; drifts=0; steps=0
for seed in range(200):
    rng=np.random.default_rng(seed)
    db=int(rng.choice([1,2,3])); stat=str(rng.choice(["tstat","stdev"])); sig=float(rng.choice([0.05,0.2,0.5,1.0,2.0])) if stat=="stdev" else float(rng.choice([0.01,0.05,0.3]))
    cd = rng.random()<0.4
    d=1 if cd else int(rng.integers(1,4))
    div = "KL" if cd else str(rng.choice(["H","KL"]))
    det = (CDBD if cd else HDDDM)(detect_batch=db, divergence=div, statistic=stat, significance=sig, subsets=int(rng.integers(2,5)))
    m = HDMModel(div,db,stat,sig)
    mus=rng.normal(0,1.5,6)
    def batch(i):
        n=int(rng.integers(8,60)); mu=mus[(i//int(rng.integers(2,5)))%6]
        return rng.normal(mu,1,(n,d))
    ref=batch(0)
    np.random.seed(seed); det.set_reference(ref); m.set_reference(ref)
    ok=True
    for i in range(1,25):
        b=batch(i)
        np.random.seed(seed*100+i); det.update(b); steps+=1
        boot = det.epsilon[0] if (det.batches_since_reset==2 and db!=3 and len(det.epsilon)>=1) else None
        o=m.update(b, boot)
        st=det.drift_state
        drifts += st=="drift"
        conds=[st==o["state"], abs(det.current_distance-o["dist"])<1e-12, det.total_batches==m.total, det.batches_since_reset==m.bsr]
        if o["beta"] is not None: conds.append(abs(det.beta-o["beta"])<1e-10)
        if o["eps"] is not None: conds.append(abs(det.epsilon_values[det.total_batches]-o["eps"])<1e-12)
        if st!="drift": conds.append(det.reference_n==o["nref"])
        if not all(conds):
            bad+=1; print("MISMATCH",seed,i,(db,stat,sig,div,d),conds,st,o["state"],det.beta if hasattr(det,'beta') else None,o["beta"],o.get("margin")); break
print("bad",bad,"drifts",drifts,"steps",steps)
