import itertools, math, numpy as np, warnings, time
warnings.simplefilter("ignore")
from menelaus.concept_drift import DDM, EDDM, STEPD
class DDMm:
    def __init__(s,nt,ws,ds): s.nt,s.ws,s.ds=nt,ws,ds; s.tot=0; s.new()
    def new(s): s.n=0; s.p=0.0; s.s=0.0; s.pmin=math.inf; s.smin=math.inf; s.state=None; s.recs=[None,None]
    def update(s,err):
        if s.state=="drift": s.new()
        s.n+=1; s.tot+=1
        pp=s.p; s.p=s.p+(err-s.p)/s.n; s.s=math.sqrt((s.s+(err-s.p)*(err-pp))/s.n)
        if s.n<s.nt: return
        if s.p+s.s<=s.pmin+s.smin: s.pmin,s.smin=s.p,s.s
        if s.p+s.s>=s.pmin+s.ds*s.s: s.state="drift"
        elif s.p+s.s>=s.pmin+s.ws*s.s: s.state="warning"
        else: s.state=None
        if s.state=="warning" and s.recs[0] is None: s.recs[0]=s.tot-1
        if s.state=="drift":
            s.recs[1]=s.tot-1
            if s.recs[0] is None: s.recs[0]=s.tot-1
class EDDMm:
    def __init__(s,nt,wt,dt): s.nt,s.wt,s.dt=nt,wt,dt; s.tot=0; s.new()
    def new(s): s.n=0; s.ne=0; s.cur=0; s.m=0.0; s.sd=0.0; s.mx=0.0; s.state=None; s.recs=[None,None]
    def update(s,err):
        if s.state=="drift": s.new()
        s.n+=1; s.tot+=1
        if not err: return
        s.ne+=1; last=s.cur; s.cur=s.n-1; d=s.cur-last
        pm=s.m; s.m=s.m+(d-s.m)/s.ne; s.sd=math.sqrt((s.sd+(d-s.m)*(d-pm))/s.ne)
        if s.ne<s.nt: return
        num=s.m+2*s.sd
        if s.mx<num: s.mx=num
        stat = num/s.mx if s.mx!=0 else math.nan
        if stat<=s.dt: s.state="drift"
        elif stat<=s.wt: s.state="warning"
        else: s.state=None
        if s.state=="warning" and s.recs[0] is None: s.recs[0]=s.tot-1
        if s.state=="drift":
            s.recs[1]=s.tot-1
            if s.recs[0] is None: s.recs[0]=s.tot-1
class STEPDm:
    def __init__(s,w,aw,ad): s.w,s.aw,s.ad=w,aw,ad; s.tot=0; s.new()
    def new(s): s.hist=[]; s.state=None; s.recs=[None,None]
    def update(s,err):
        if s.state=="drift": s.new()
        s.tot+=1; s.hist.append(1-err); n=len(s.hist)
        if n<2*s.w: return
        rec=s.hist[-s.w:]; past=s.hist[:-s.w]
        pr=sum(rec)/s.w; pp=sum(past)/len(past); po=sum(s.hist)/n
        h=1/len(past)+1/s.w
        den=math.sqrt(po*(1-po)*h)
        num=abs(pp-pr)-0.5*h
        if den==0: T = math.nan if num==0 else math.copysign(math.inf,num)
        else: T=num/den
        p = math.nan if math.isnan(T) else 0.5*math.erfc(T/math.sqrt(2))
        dec = pp>pr
        if dec and p<s.ad: s.state="drift"
        elif dec and p<s.aw: s.state="warning"
        else: s.state=None; s.recs=[None,None]
        if s.state is not None:
            if s.recs[0] is None: s.recs=[s.tot-1,s.tot-1]
            else: s.recs[1]+=1
def norm(r): return [None if v is None else int(v) for v in r]
bad=0; n=0; t0=time.time(); near=0
N=12
cfgs=[("DDM",lambda:DDM(1,2,3),lambda:DDMm(1,2,3)),("DDM",lambda:DDM(3,1.1,1.5),lambda:DDMm(3,1.1,1.5)),("DDM",lambda:DDM(2,1.0,2.0),lambda:DDMm(2,1.0,2.0)),
      ("EDDM",lambda:EDDM(1,0.95,0.9),lambda:EDDMm(1,0.95,0.9)),("EDDM",lambda:EDDM(2,1.0,0.8),lambda:EDDMm(2,1.0,0.8)),("EDDM",lambda:EDDM(3,0.9,0.5),lambda:EDDMm(3,0.9,0.5)),
      ("STEPD",lambda:STEPD(1,0.2,0.05),lambda:STEPDm(1,0.2,0.05)),("STEPD",lambda:STEPD(2,0.3,0.1),lambda:STEPDm(2,0.3,0.1)),("STEPD",lambda:STEPD(3,0.05,0.003),lambda:STEPDm(3,0.05,0.003))]
for name,mk,mkm in cfgs:
    dr=0
    for bits in itertools.product((0,1),repeat=N):
        d=mk(); m=mkm()
        for i,e in enumerate(bits):
            d.update(1,1-e); m.update(e); n+=1
            if d.drift_state!=m.state or norm(d.retraining_recs)!=m.recs:
                bad+=1; print("MISMATCH",name,bits,i,d.drift_state,m.state,norm(d.retraining_recs),m.recs); break
            dr+= m.state=="drift"
        if bad>5: break
    print(name,"drift steps",dr)
print("bad",bad,"steps",n,"time",round(time.time()-t0,1))
