import numpy as np, pandas as pd, warnings
warnings.simplefilter("ignore")
from menelaus.concept_drift import DDM, EDDM, STEPD, LinearFourRates, ADWINAccuracy
from menelaus.change_detection import ADWIN, CUSUM, PageHinkley
from menelaus.data_drift import HDDDM, CDBD, KdqTreeBatch, NNDVI, KdqTreeStreaming
rng=np.random.default_rng(3)
es = np.concatenate([rng.random(150)<0.1, rng.random(150)<0.5, rng.random(100)<0.05]).astype(int)
yt = rng.integers(0,3,400)
yp = np.where(es==1, (yt+1)%3, yt)
encs = {
 "int": lambda v:int(v), "str": lambda v: "c%d"%v, "float": lambda v: float(v)*1.5, "bool3": lambda v: (v, ) , "npint": lambda v: np.int64(v+10),
 "list": lambda v:[int(v)], "arr": lambda v: np.array([v]), "series": lambda v: pd.Series([v]), "arr2d": lambda v: np.array([[v]]),
}
def run(mk, enc):
    d=mk(); tr=[]
    for a,b in zip(yt,yp):
        d.update(enc(a), enc(b)); tr.append((d.drift_state, tuple(d.retraining_recs)))
    return tr
for name,mk in [("DDM",lambda:DDM(n_threshold=10)),("EDDM",lambda:EDDM(n_threshold=5)),("STEPD",lambda:STEPD(window_size=10)),("ADWINAcc",lambda:ADWINAccuracy(new_sample_thresh=4))]:
    base=run(mk,encs["int"])
    for k,e in encs.items():
        if k=="bool3": continue
        try:
            r=run(mk,e); print(name,k, r==base, sum(s=="drift" for s,_ in r))
        except Exception as ex: print(name,k,"ERR",type(ex).__name__,ex)
# LFR encodings
yt2=rng.integers(0,2,300); yp2=np.where(rng.random(300)<0.2,1-yt2,yt2)
def runl(enc):
    np.random.seed(1); d=LinearFourRates(burn_in=10,num_mc=50); tr=[]
    for a,b in zip(yt2,yp2):
        d.update(enc(a),enc(b)); tr.append((d.drift_state,tuple(d.retraining_recs)))
    return tr
base=runl(int)
for k,e in {"bool":bool,"npbool":np.bool_,"list":lambda v:[int(v)],"arr":lambda v:np.array([v]),"series":lambda v:pd.Series([v]),"float":float}.items():
    try: print("LFR",k,runl(e)==base)
    except Exception as ex: print("LFR",k,"ERR",type(ex).__name__,ex)
