import numpy as np, math
from sklearn.decomposition import PCA
from sklearn.neighbors import KernelDensity
from scipy.spatial.distance import jensenshannon
class PH:
    def __init__(s,delta,thr): s.delta=delta; s.thr=thr; s.reset()
    def reset(s): s.n=0; s.mean=0.0; s.sum=0.0; s.mn=0.0; s.state=None
    def update(s,x):
        if s.state=="drift": s.reset()
        s.n+=1; s.mean+= (x-s.mean)/s.n; s.sum+= x-s.mean-s.delta
        s.mn=min(s.mn,s.sum)
        s.state = "drift" if (s.sum-s.mn) > s.thr*s.mean and s.n>0 else None
        return s.state
def kde_density(v):
    v=np.asarray(v,float); bw=1.06*np.std(v,ddof=1)*len(v)**(-1/5)
    k=KernelDensity(bandwidth=bw,kernel="epanechnikov").fit(v.reshape(-1,1))
    return np.exp(k.score_samples(v.reshape(-1,1)))
def hist_density(v,bins,lo,hi):
    h=np.histogram(v,bins=bins,range=(lo,hi),density=True)[0]; return h/h.sum()
class PCACDModel:
    def __init__(s,w,ev,delta,metric,sample_period,scaling):
        s.w=w; s.ev=ev; s.metric=metric; s.scaling=scaling
        s.step=min(100,round(sample_period*w)); s.bins=int(math.floor(math.sqrt(w)))
        s.ph=PH(delta,round(0.01*w)); s.total=0; s.ssr=0; s.state=None
        s.ref=[]; s.test=[]; s.building=True; s.scores=[]
    def _fit(s):
        R=np.array(s.ref); T=np.array(s.test)
        if s.scaling:
            s.mu=R.mean(0); s.sd=R.std(0); s.sd[s.sd==0]=1.0
            Rs=(R-s.mu)/s.sd; Ts=(T-s.mu)/s.sd
        else: Rs,Ts=R,T
        s.pca=PCA(s.ev).fit(Rs); s.npc=len(s.pca.components_)
        s.Rp=s.pca.transform(Rs); s.Tp=s.pca.transform(Ts)
        s.rng=[(min(s.Rp[:,i].min(),s.Tp[:,i].min()), max(s.Rp[:,i].max(),s.Tp[:,i].max())) for i in range(s.npc)]
        if s.metric=="intersection": s.dref=[hist_density(s.Rp[:,i],s.bins,*s.rng[i]) for i in range(s.npc)]
        else: s.dref=[kde_density(s.Rp[:,i]) for i in range(s.npc)]
    def update(s,x):
        x=np.asarray(x,float).ravel(); s.total+=1; s.ssr+=1; score=None
        if s.building:
            if s.state is not None:
                s.ref=list(s.raw_test); s.test=[]; s.ssr=0; s.state=None; s.ph.reset()
            elif len(s.ref)<s.w: s.ref.append(x)
            elif len(s.test)<s.w: s.test.append(x)
            if len(s.test)==s.w:
                s.building=False; s._fit(); s.raw_test=list(s.test)
        else:
            s.raw_test=s.raw_test[1:]+[x]
            xs=(x-s.mu)/s.sd if s.scaling else x
            p=s.pca.transform(xs.reshape(1,-1))[0]
            if s.metric=="intersection":
                p=np.array([min(max(p[i],s.rng[i][0]),s.rng[i][1]) for i in range(s.npc)])
            s.Tp=np.vstack([s.Tp[1:],p])
            if (s.total-1)%s.step==0 and s.total-1!=0:
                if s.metric=="intersection":
                    sc=[1-np.sum(np.minimum(s.dref[i],hist_density(s.Tp[:,i],s.bins,*s.rng[i]))) for i in range(s.npc)]
                else:
                    sc=[jensenshannon(s.dref[i],kde_density(s.Tp[:,i])) for i in range(s.npc)]
                score=max(sc); s.scores.append(score)
                if s.ph.update(score) is not None:
                    s.building=True; s.state="drift"
        return s.state, score
