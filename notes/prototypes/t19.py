import itertools, copy
from menelaus.ensemble import *
from menelaus.ensemble.election import *
class D: 
    def __init__(s,st): s.drift_state=st
S=[None,"warning","drift"]
bad=0;n_eval=0
for n in range(0,6):
    for vec in itertools.product(S,repeat=n):
        dets=[D(s) for s in vec]; k=sum(s=="drift" for s in vec)
        r=SimpleMajorityElection()(dets); n_eval+=1
        if (r=="drift")!=(k>n/2) or r not in ("drift",None): bad+=1; print("maj",vec,r)
        for a in range(0,n+2):
            if a>=1:
                r=MinimumApprovalElection(a)(dets); n_eval+=1
                if (r=="drift")!=(k>=a): bad+=1; print("min",a,vec,r)
            for c in range(0,n+2):
                if a+c==0: continue
                r=OrderedApprovalElection(a,c)(dets); n_eval+=1
                if (r=="drift")!=(k>=a+c): bad+=1; print("ord",a,c,vec,r)
print("stateless bad",bad,"evals",n_eval)
# confirmed election BFS
def model_step(rem, vec, sens, wt):
    rem=list(rem); voters=0; warn=0
    for i,s in enumerate(vec):
        if rem[i] is None:   # idle
            if s=="drift": voters+=1; rem[i]=wt if wt>0 else None
            elif s=="warning": warn+=1
        else:
            if s=="warning": warn+=1
            else:
                voters+=1; rem[i]-=1
                if rem[i]==0: rem[i]=None
    ret = "drift" if voters>=sens else ("warning" if voters+warn>=sens else None)
    return tuple(rem), ret
tot=0;states=0
for n in (1,2,3):
  for sens in range(1,n+2):
    for wt in range(0,4):
        e0=ConfirmedElection(sens,wt)
        start=(tuple([None]*n)); seen={}
        frontier=[(start,e0)]
        seen[(start,tuple([0]*n))]=1
        while frontier:
            rem,e=frontier.pop()
            for vec in itertools.product(S,repeat=n):
                e2=copy.deepcopy(e); r=e2([D(s) for s in vec]); rem2,exp=model_step(rem,vec,sens,wt); tot+=1
                if r!=exp or max(e2.wait_period_counters)>wt: bad+=1; print("CONF",n,sens,wt,rem,vec,r,exp,e2.wait_period_counters); 
                key=(rem2,tuple(e2.wait_period_counters))
                if key not in seen: seen[key]=1; frontier.append((rem2,e2))
        states+=len(seen)
print("confirmed bad",bad,"transitions",tot,"joint states",states)
