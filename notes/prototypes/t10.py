import numpy as np, warnings, sys
warnings.simplefilter("ignore")
from menelaus.change_detection import ADWIN
from adwin_model import AdwinModel
bad=0; nd=0; steps=0; mm=[]
for seed in range(300):
    rng=np.random.default_rng(seed)
    delta = float(rng.choice([0.002,0.05,0.3,1.0,1e-6])); M=int(rng.choice([1,2,3,5])); period=int(rng.choice([1,2,5,8,32]))
    wmin=int(rng.choice([1,3,10])); sub=int(rng.choice([1,2,5])); cons=bool(rng.integers(0,2))
    n=int(rng.integers(50,400))
    segs=[]; 
    while sum(map(len,segs))<n:
        mu=rng.normal(0,3); sd=abs(rng.normal(0,1))+0.01
        segs.append(rng.normal(mu,sd,int(rng.integers(5,120))))
    xs=np.concatenate(segs)[:n]
    if rng.random()<0.3: xs=(xs>0).astype(float)
    a=ADWIN(delta=delta,max_buckets=M,new_sample_thresh=period,window_size_thresh=wmin,subwindow_size_thresh=sub,conservative_bound=cons)
    m=AdwinModel(delta,M,period,wmin,sub,cons)
    for i,x in enumerate(xs):
        a.update(x); d,marg=m.update(x); steps+=1
        got = a.drift_state=="drift"
        nd+=got
        W=m.W()
        ok = (got==d) and (a._window_size==W)
        if ok and W>0:
            win=m.window()
            ok = abs(a.mean()-np.mean(win))<1e-9*(1+abs(np.mean(win))) and abs(a.variance()-np.var(win))<1e-8*(1+np.var(xs[:i+1]))
            if got: ok = ok and tuple(int(v) for v in a.retraining_recs)==(i+1-W,i)
        if not ok:
            bad+=1; print("MISMATCH seed",seed,"i",i,"got",got,"model",d,a._window_size,W,a.mean(),a.variance(), [x for x in marg if abs(x)<1e-9][:3], (delta,M,period,wmin,sub,cons)); break
print("bad",bad,"drifts",nd,"steps",steps)
