import numpy as np, pandas as pd, warnings
warnings.simplefilter("ignore")
import menelaus; print(menelaus.__file__)
from menelaus.data_drift import HDDDM, CDBD, KdqTreeStreaming, KdqTreeBatch, NNDVI, PCACD
from menelaus.change_detection import CUSUM, ADWIN, PageHinkley
from menelaus.concept_drift import DDM, EDDM, STEPD, LinearFourRates, ADWINAccuracy
rng=np.random.default_rng(0)
def show(name, tr):
    # compress: print around drifts
    out=[]
    for i,(tot,ssr,st,rec) in enumerate(tr):
        near = any(tr[j][2]=="drift" for j in range(max(0,i-1), min(len(tr), i+2))) or i<2
        if near: out.append(f"{i}:{tot}/{ssr}/{st}/{rec}")
    print(name, " ".join(out[:24]))
def stream_val(det, xs, name):
    tr=[]
    for x in xs:
        det.update(x); tr.append((det.total_samples, det.samples_since_reset, det.drift_state, getattr(det,'retraining_recs',None)))
    show(name,tr)
def stream_err(det, es, name):
    tr=[]
    for e in es:
        det.update(1, int(1-e)); tr.append((det.total_samples, det.samples_since_reset, det.drift_state, list(det.retraining_recs)))
    show(name,tr)
xs = np.concatenate([rng.normal(0,1,100), rng.normal(6,1,100), rng.normal(-5,1,100)])
stream_val(ADWIN(new_sample_thresh=8), xs, "ADWIN")
stream_val(CUSUM(burn_in=10), xs, "CUSUM")
stream_val(PageHinkley(burn_in=10, threshold=3), np.abs(xs)+1, "PH")
es = np.concatenate([rng.random(100)<0.1, rng.random(100)<0.6, rng.random(100)<0.05, rng.random(100)<0.7]).astype(int)
stream_err(DDM(n_threshold=10), es, "DDM")
stream_err(EDDM(n_threshold=5), es, "EDDM")
stream_err(STEPD(window_size=10), es, "STEPD")
np.random.seed(0)
l = LinearFourRates(burn_in=10, num_mc=100); tr=[]
yt = rng.integers(0,2,400)
for e,t in zip(es,yt):
    l.update(int(t), int(t) if not e else 1-int(t)); tr.append((l.total_samples,l.samples_since_reset,l.drift_state,list(l.retraining_recs)))
show("LFR",tr)
a = ADWINAccuracy(new_sample_thresh=8); tr=[]
for e in es:
    a.update(1,int(1-e)); tr.append((a.total_samples,a.samples_since_reset,a.drift_state,a.retraining_recs))
show("ADWINAcc",tr)
# streaming data drift
X = np.vstack([rng.normal(0,1,(120,2)), rng.normal(5,1,(120,2)), rng.normal(-5,1,(120,2))])
np.random.seed(0)
k = KdqTreeStreaming(window_size=20, bootstrap_samples=50, count_ubound=5); tr=[]
for r in X:
    k.update(r.reshape(1,-1)); tr.append((k.total_samples,k.samples_since_reset,k.drift_state,None))
show("KdqS",tr)
p = PCACD(window_size=40); tr=[]
for r in X:
    p.update(r.reshape(1,-1)); tr.append((p.total_samples,p.samples_since_reset,p.drift_state,None))
show("PCACD",tr)
# batch
def B(shifts):
    return [rng.normal(s,1,(50,2)) for s in shifts]
bs = B([0,0,0,0,0,4,4,4,4,-4,-4,-4,-4,-4])
for db in (1,2,3):
    np.random.seed(0)
    h = HDDDM(detect_batch=db, subsets=3); h.set_reference(bs[0]); tr=[(h.total_batches,h.batches_since_reset,h.drift_state,None)]
    for b in bs[1:]:
        h.update(b); tr.append((h.total_batches,h.batches_since_reset,h.drift_state,None))
    print("HDDDM",db," ".join(f"{a}/{b}/{c}" for a,b,c,_ in tr))
np.random.seed(0)
kb = KdqTreeBatch(bootstrap_samples=50,count_ubound=5); tr=[]
for b in bs:
    kb.update(b); tr.append((kb.total_batches,kb.batches_since_reset,kb.drift_state))
print("KdqB upd-only", " ".join(f"{a}/{b}/{c}" for a,b,c in tr))
kb = KdqTreeBatch(bootstrap_samples=50,count_ubound=5); kb.set_reference(bs[0]); tr=[(kb.total_batches,kb.batches_since_reset,kb.drift_state)]
for b in bs[1:]:
    kb.update(b); tr.append((kb.total_batches,kb.batches_since_reset,kb.drift_state))
print("KdqB setref", " ".join(f"{a}/{b}/{c}" for a,b,c in tr))
n = NNDVI(k_nn=5, sampling_times=50); n.set_reference(bs[0]); tr=[]
for b in bs[1:]:
    n.update(b); tr.append((n.total_batches,n.batches_since_reset,n.drift_state))
print("NNDVI", " ".join(f"{a}/{b}/{c}" for a,b,c in tr))
