import numpy as np, pandas as pd, warnings
warnings.simplefilter("ignore")
from menelaus.data_drift import KdqTreeStreaming
found=0
for seed in range(40):
    rng = np.random.default_rng(seed)
    np.random.seed(seed)
    w=20
    det = KdqTreeStreaming(window_size=w, persistence=0.3, bootstrap_samples=50, count_ubound=3, alpha=0.2)
    run=0; viol=None
    for t in range(400):
        if det.drift_state=="drift": run=0
        phase = (t//rng.integers(3,9))%2
        x = rng.normal(size=(1,2)) + (3 if (t%37)<5 else 0)
        det.update(x)
        if det._kdqtree is not None and det._test_dist is not None and det._critical_dist is not None and det._test_data_size>=w:
            above = det._test_dist > det._critical_dist
            run = run+1 if above else 0
            exp = run > 0.3*w
            got = det.drift_state=="drift"
            if exp!=got:
                viol=(t,run,det._drift_counter,got); break
        else:
            run=0
    if viol: found+=1; print(seed, viol)
print("found", found)
