import math, numpy as np, scipy.stats
def hist(col, bins, lo, hi):
    return np.histogram(col, bins=bins, range=(lo,hi))[0]
def hellinger(r,t):
    r=np.asarray(r,float); t=np.asarray(t,float)
    return float(np.sqrt(np.sum((np.sqrt(t/t.sum())-np.sqrt(r/r.sum()))**2)))
def js(r,t):
    p=np.asarray(r,float)/np.sum(r); q=np.asarray(t,float)/np.sum(t); m=(p+q)/2
    def kl(a,b):
        mask=a>0
        return float(np.sum(a[mask]*np.log(a[mask]/b[mask])))
    return math.sqrt(max(0.0,(kl(p,m)+kl(q,m))/2))
class HDMModel:
    def __init__(s, div, db, stat, sig):
        s.div={"H":hellinger,"KL":js}.get(div,div); s.db=db; s.stat=stat; s.sig=sig
        s.total=0; s.bsr=0; s.state=None
    def set_reference(s, X):
        s.ref=np.array(X,float); s._start_epoch()
    def _start_epoch(s):
        s.bsr=0; s.state=None; s.eps=[]; s.boot=None; s.prev=None
        if s.db==1:
            h=int(len(s.ref)/2); proxy=s.ref[h:]; s.ref=s.ref[:h]
            s._process(proxy, None)
    def update(s, X, boot_eps=None):
        if s.state=="drift": s._start_epoch()
        return s._process(np.array(X,float), boot_eps)
    def _process(s, X, boot_eps):
        s.total+=1; s.bsr+=1
        nref=len(s.ref); bins=int(math.floor(math.sqrt(nref))); d=X.shape[1]
        fd=[]
        for f in range(d):
            lo=min(s.ref[:,f].min(), X[:,f].min()); hi=max(s.ref[:,f].max(), X[:,f].max())
            fd.append(s.div(hist(s.ref[:,f],bins,lo,hi), hist(X[:,f],bins,lo,hi)))
        dist=sum(fd)/d
        out={"dist":dist,"fd":fd,"eps":None,"beta":None,"bins":bins}
        drift=False
        if s.bsr>=2:
            e=abs(dist-s.prev); out["eps"]=e
            can = (s.db!=3) or s.bsr>=3
            if can:
                if s.bsr==2 and s.db!=3:
                    prev=[boot_eps]; dsc=1
                else:
                    prev=list(s.eps); dsc=s.bsr-1
                mean=sum(prev)/dsc
                sd=math.sqrt(sum((p-mean)**2 for p in prev)/dsc)
                if s.stat=="tstat":
                    t=scipy.stats.t.ppf(1-s.sig/2, nref+len(X)-2); beta=mean+t*sd/math.sqrt(dsc)
                else: beta=mean+s.sig*sd
                out["beta"]=beta; drift = e>beta; out["margin"]=e-beta
            s.eps.append(e)
        if drift:
            s.state="drift"; s.ref=X
        else:
            s.state=None; s.prev=dist; s.ref=np.vstack([s.ref,X])
        out["state"]=s.state; out["nref"]=len(s.ref)
        return out
