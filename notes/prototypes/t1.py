import numpy as np, pandas as pd, warnings
print(pd.__version__, np.__version__)
df = pd.DataFrame({"a":[1.0,2.0,3.0],"b":[4.0,5.0,6.0]})
v = df.values
print("writeable", v.flags.writeable, "shares", np.shares_memory(v, df.to_numpy()))
df.iloc[0,0] = 99.0
print("view sees mutation via iloc:", v[0,0])
df.loc[1,"a"] = 77.0
print(v[1,0])
df["a"] = [5.,6.,7.]
print("after column replace", v[:,0])
# DataFrame(ndarray) copies?
a = np.arange(6.).reshape(3,2)
d2 = pd.DataFrame(a)
a[0,0] = -1
print("DataFrame(ndarray) aliasing:", d2.iloc[0,0])
# mixed dtype
df3 = pd.DataFrame({"a":[1,2,3],"b":[4.0,5.0,6.0]})
v3 = df3.values
df3.iloc[0,0]=50
print("mixed:", v3[0,0])
# single row df
df4 = pd.DataFrame({"a":[1.0],"b":[2.0]})
v4 = df4.values
df4.iloc[0,0] = 9
print("single row:", v4)
